#!/usr/bin/env python3
"""Regenerates MANIFEST.json from the table below (keeps it valid at all times)."""
import json, sys
CHECKS = json.load(open('/verif/checks.json'))
props = [json.loads(l)['id'] for l in open('/verif/properties.jsonl')]
checks, na = [], []
for pid in props:
    c = CHECKS.get(pid)
    if not c or c.get('na'):
        na.append({"property_id": pid, "reason": (c or {}).get('na', 'check not built yet (work in progress; see DESIGN.md §3 for the planned check)')})
        continue
    checks.append({
        "property_id": pid,
        "quick_cmd": f"./check {pid} quick",
        "thorough_cmd": f"./check {pid} thorough",
        "evidence_file": f"/verif/evidence/{pid}.json",
        "replay_cmd_template": "./check replay {path}",
        "engine": "mc",
        "level_claimed": {"category": "model_checking", "text": c['text'], "design_ref": c['design_ref']},
        "level_note": c['note'],
        "technique": c['technique'],
    })
hooks = json.load(open('/verif/hooks.json'))
m = {
    "version": 1,
    "setup_cmd": "./check build",
    "hooks": hooks,
    "engines": [{"name": "mc", "path": "/verif/mc", "serves_properties": [c['property_id'] for c in checks],
                 "kind_free_text": "stateless bounded-exhaustive explorer (choice-sequence DFS, deviation-bounded) driving the real prqlc entry points; reference interpreter + in-process SQLite as oracle; every enumerated case is replayed on the implementation"}],
    "checks": checks,
    "not_applicable": na,
    "notes": "All checks build /verif/mc against /repo's working tree (path dependency) with RUSTFLAGS=--cfg prqlc_verif. Exit 0 = held / only known findings, 1 = VIOLATION, 2 = machinery failure.",
}
json.dump(m, open('/verif/MANIFEST.json', 'w'), indent=1)
print("checks:", [c['property_id'] for c in checks], "na:", [n['property_id'] for n in na])
