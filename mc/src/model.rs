//! The model: abstract programs (AP) of PRQL's relational core, their printer, static frame
//! computation, and the reference interpreter (plain Rust over Vec<Row>).
//! Deliberately boring and independent of prqlc's data structures.

use std::cmp::Ordering;

// ------------------------------------------------------------------ values

#[derive(Clone, Debug, PartialEq)]
pub enum V {
    Null,
    Int(i64),
    Real(f64),
    Text(String),
}

impl V {
    pub fn is_null(&self) -> bool {
        matches!(self, V::Null)
    }
    pub fn as_f64(&self) -> Option<f64> {
        match self {
            V::Int(i) => Some(*i as f64),
            V::Real(r) => Some(*r),
            _ => None,
        }
    }
    pub fn truth(&self) -> Option<bool> {
        match self {
            V::Null => None,
            V::Int(i) => Some(*i != 0),
            V::Real(r) => Some(*r != 0.0),
            V::Text(_) => Some(false),
        }
    }
    pub fn bool3(b: Option<bool>) -> V {
        match b {
            None => V::Null,
            Some(b) => V::Int(b as i64),
        }
    }
    pub fn show(&self) -> String {
        match self {
            V::Null => "NULL".into(),
            V::Int(i) => i.to_string(),
            V::Real(r) => format!("{r:?}"),
            V::Text(s) => format!("{s:?}"),
        }
    }
}

/// Equality used when comparing results: numeric across Int/Real with tolerance, text exact.
pub fn v_eq(a: &V, b: &V) -> bool {
    match (a, b) {
        (V::Null, V::Null) => true,
        (V::Text(x), V::Text(y)) => x == y,
        (V::Int(x), V::Int(y)) => x == y,
        _ => match (a.as_f64(), b.as_f64()) {
            (Some(x), Some(y)) => {
                if x == y {
                    true
                } else {
                    let d = (x - y).abs();
                    d <= 1e-9 * x.abs().max(y.abs()).max(1.0)
                }
            }
            _ => false,
        },
    }
}

/// Total order for sorting / canonical forms: NULL < numbers < text.
pub fn v_cmp(a: &V, b: &V) -> Ordering {
    fn rank(v: &V) -> u8 {
        match v {
            V::Null => 0,
            V::Int(_) | V::Real(_) => 1,
            V::Text(_) => 2,
        }
    }
    match (a, b) {
        (V::Text(x), V::Text(y)) => x.cmp(y),
        _ => match (a.as_f64(), b.as_f64()) {
            (Some(x), Some(y)) => x.partial_cmp(&y).unwrap_or(Ordering::Equal),
            _ => rank(a).cmp(&rank(b)),
        },
    }
}

pub fn row_cmp(a: &[V], b: &[V]) -> Ordering {
    for (x, y) in a.iter().zip(b) {
        let o = v_cmp(x, y);
        if o != Ordering::Equal {
            return o;
        }
    }
    a.len().cmp(&b.len())
}

pub fn row_eq(a: &[V], b: &[V]) -> bool {
    a.len() == b.len() && a.iter().zip(b).all(|(x, y)| v_eq(x, y))
}

// ------------------------------------------------------------------ instances

pub const T_COLS: [&str; 2] = ["a", "b"];
pub const U_COLS: [&str; 2] = ["a", "d"];

#[derive(Clone, Debug, PartialEq)]
pub struct Inst {
    pub name: String,
    pub t: Vec<Vec<V>>,
    pub u: Vec<Vec<V>>,
}

impl Inst {
    pub fn show(&self) -> String {
        let f = |rows: &Vec<Vec<V>>| {
            rows.iter()
                .map(|r| format!("({})", r.iter().map(|v| v.show()).collect::<Vec<_>>().join(",")))
                .collect::<Vec<_>>()
                .join(" ")
        };
        format!("t(a,b)=[{}] u(a,d)=[{}]", f(&self.t), f(&self.u))
    }
}

// ------------------------------------------------------------------ frames

#[derive(Clone, Debug, PartialEq)]
pub struct FCol {
    /// bare name; None = unnamed (computed without alias, or shadowed by a later same-named column)
    pub name: Option<String>,
    /// relation alias this column can be qualified with
    pub input: Option<String>,
}

#[derive(Clone, Debug, PartialEq, Default)]
pub struct Frame {
    pub cols: Vec<FCol>,
    /// all relation aliases in scope
    pub inputs: Vec<String>,
    /// aliases whose columns the *compiler* does not know (`from t` without select)
    pub open: Vec<String>,
}

impl Frame {
    pub fn named(&self, i: usize) -> Option<&str> {
        self.cols[i].name.as_deref()
    }
    /// How a program refers to column i (None: it cannot be referenced unambiguously).
    pub fn refname(&self, i: usize) -> Option<String> {
        let c = &self.cols[i];
        let name = c.name.as_ref()?;
        let same: Vec<usize> =
            (0..self.cols.len()).filter(|&j| self.cols[j].name.as_ref() == Some(name)).collect();
        let must_qualify = !self.open.is_empty() && self.inputs.len() >= 2;
        if same.len() == 1 && !must_qualify {
            return Some(pr_ident(name));
        }
        let inp = c.input.as_ref()?;
        let same_q = same.iter().filter(|&&j| self.cols[j].input.as_ref() == Some(inp)).count();
        if same_q == 1 {
            Some(format!("{}.{}", pr_ident(inp), pr_ident(name)))
        } else {
            None
        }
    }
    pub fn referencable(&self) -> Vec<usize> {
        (0..self.cols.len()).filter(|&i| self.refname(i).is_some()).collect()
    }
    /// Adding a column called `name` un-names earlier columns of that bare name.
    fn shadow(&mut self, name: &str) {
        for c in &mut self.cols {
            if c.name.as_deref() == Some(name) {
                c.name = None;
            }
        }
    }
}

pub fn pr_ident(s: &str) -> String {
    let plain = !s.is_empty()
        && s.chars().all(|c| c.is_ascii_lowercase() || c.is_ascii_digit() || c == '_')
        && !s.chars().next().unwrap().is_ascii_digit();
    if plain {
        s.to_string()
    } else {
        format!("`{s}`")
    }
}

// ------------------------------------------------------------------ abstract programs

#[derive(Clone, Copy, Debug, PartialEq, Eq, Hash)]
pub enum Op {
    Add,
    Sub,
    Mul,
    Gt,
    Lt,
    Eq,
    Ne,
    And,
    Or,
    Lte,
    Gte,
}

impl Op {
    pub fn sym(self) -> &'static str {
        match self {
            Op::Add => "+",
            Op::Sub => "-",
            Op::Mul => "*",
            Op::Gt => ">",
            Op::Lt => "<",
            Op::Eq => "==",
            Op::Ne => "!=",
            Op::And => "&&",
            Op::Or => "||",
            Op::Lte => "<=",
            Op::Gte => ">=",
        }
    }
}

#[derive(Clone, Copy, Debug, PartialEq, Eq, Hash)]
pub enum Agg {
    CountThis,
    Count,
    Sum,
    Min,
    Max,
    Average,
    /// an expression over two aggregations of the same column: `(sum x) + (count x)`
    SumPlusCount,
}

impl Agg {
    pub fn name(self) -> &'static str {
        match self {
            Agg::CountThis | Agg::Count => "count",
            Agg::Sum => "sum",
            Agg::Min => "min",
            Agg::Max => "max",
            Agg::Average => "average",
            Agg::SumPlusCount => "sum",
        }
    }
}

#[derive(Clone, Copy, Debug, PartialEq, Eq, Hash)]
pub enum WinFn {
    Sum,
    Min,
    Max,
    Average,
    Count,
    Lag,
    Lead,
    First,
    Last,
    Rank,
    RankDense,
    RowNumber,
}

impl WinFn {
    pub fn name(self) -> &'static str {
        match self {
            WinFn::Sum => "sum",
            WinFn::Min => "min",
            WinFn::Max => "max",
            WinFn::Average => "average",
            WinFn::Count => "count",
            WinFn::Lag => "lag 1",
            WinFn::Lead => "lead 1",
            WinFn::First => "first",
            WinFn::Last => "last",
            WinFn::Rank => "rank",
            WinFn::RankDense => "rank_dense",
            WinFn::RowNumber => "row_number",
        }
    }
    pub fn positional(self) -> bool {
        matches!(
            self,
            WinFn::Lag | WinFn::Lead | WinFn::First | WinFn::Last | WinFn::RowNumber | WinFn::Rank | WinFn::RankDense
        )
    }
}

#[derive(Clone, Debug, PartialEq)]
pub enum E {
    Col(usize),
    Int(i64),
    Null,
    Bin(Op, Box<E>, Box<E>),
    IsNull(Box<E>),
    /// window / aggregation function applied to a column (evaluated over the current segment)
    Win(WinFn, Option<usize>),
    /// call of user function #i of the program with these arguments
    Call(usize, Vec<E>),
}

impl E {
    pub fn bin(op: Op, l: E, r: E) -> E {
        E::Bin(op, Box::new(l), Box::new(r))
    }
    pub fn has_win(&self) -> bool {
        match self {
            E::Win(..) => true,
            E::Bin(_, l, r) => l.has_win() || r.has_win(),
            E::IsNull(e) => e.has_win(),
            E::Call(_, a) => a.iter().any(|e| e.has_win()),
            _ => false,
        }
    }
    pub fn cols(&self, out: &mut Vec<usize>) {
        match self {
            E::Col(i) => out.push(*i),
            E::Bin(_, l, r) => {
                l.cols(out);
                r.cols(out)
            }
            E::IsNull(e) => e.cols(out),
            E::Win(_, Some(i)) => out.push(*i),
            E::Call(_, a) => a.iter().for_each(|e| e.cols(out)),
            _ => {}
        }
    }
}

#[derive(Clone, Debug, PartialEq)]
pub struct Item {
    pub alias: Option<String>,
    pub e: E,
}

#[derive(Clone, Copy, Debug, PartialEq, Eq, Hash)]
pub enum Side {
    Inner,
    Left,
    Right,
    Full,
}

#[derive(Clone, Debug, PartialEq)]
pub enum Cond {
    /// `(==name)`
    EqName(String),
    /// expression over the combined frame (left columns, then right columns)
    Expr(E),
    True,
}

#[derive(Clone, Debug, PartialEq)]
pub enum Source {
    /// base table `t` or `u`
    Table(String),
    /// reference to let-table #i
    Let(usize),
    /// relation literal: column names and rows
    Lit(Vec<String>, Vec<Vec<V>>),
    /// nested pipeline in parentheses
    Sub(Box<Pipeline>),
}

#[derive(Clone, Copy, Debug, PartialEq)]
pub enum FrameKind {
    Rows(Option<i64>, Option<i64>),
    Range(Option<i64>, Option<i64>),
    Rolling(i64),
    Expanding,
}

#[derive(Clone, Debug, PartialEq)]
pub enum Step {
    Select(Vec<Item>),
    /// `select !{cols}`
    SelectExcept(Vec<usize>),
    Derive(Vec<Item>),
    Filter(E),
    /// (descending, key)
    Sort(Vec<(bool, E)>),
    /// 1-based inclusive positions; None = open
    Take(Option<i64>, Option<i64>),
    Join { side: Side, right: Source, alias: Option<String>, cond: Cond },
    Aggregate(Vec<(String, Agg, Option<usize>)>),
    Group { keys: Vec<usize>, inner: Vec<Step> },
    Window { kind: FrameKind, inner: Vec<Step> },
    Append(Source),
}

#[derive(Clone, Debug, PartialEq)]
pub struct Pipeline {
    pub src: Source,
    pub steps: Vec<Step>,
}

/// `let f = p.. -> body` ; body is an expression over parameters (E::Col(i) = parameter i)
#[derive(Clone, Debug, PartialEq)]
pub struct UserFn {
    pub name: String,
    pub params: Vec<String>,
    /// named parameters with integer defaults; in `body` they follow the positional ones
    pub named: Vec<(String, i64)>,
    pub style: CallStyle,
    pub body: E,
}

#[derive(Clone, Copy, Debug, PartialEq, Eq)]
pub enum CallStyle {
    /// `f a`
    Plain,
    /// `f y:1 a` (named argument given explicitly, equal to its default)
    NamedExplicit,
    /// `(a | f)`
    Piped,
}

#[derive(Clone, Copy, Debug, PartialEq, Eq)]
pub enum LetStyle {
    Let,
    /// `from .. | into name`
    Into,
    /// `module m { let name = (..) }`, referred to as `m.name`
    Module,
}

#[derive(Clone, Debug, PartialEq, Default)]
pub struct Program {
    pub funcs: Vec<UserFn>,
    pub lets: Vec<(String, Pipeline)>,
    /// how each let-table is written (missing = `let`)
    pub let_style: Vec<LetStyle>,
    pub main: Option<Pipeline>,
    /// replacements applied to the printed text: spellings of the same program the printer cannot produce
    pub text_rewrites: Vec<(String, String)>,
}

impl Program {
    pub fn style(&self, i: usize) -> LetStyle {
        self.let_style.get(i).copied().unwrap_or(LetStyle::Let)
    }
}

// ------------------------------------------------------------------ static frames

pub struct Env<'a> {
    pub prog: &'a Program,
}

pub fn source_name(src: &Source, prog: &Program) -> Option<String> {
    match src {
        Source::Table(n) => Some(n.clone()),
        Source::Let(i) => Some(prog.lets[*i].0.clone()),
        Source::Lit(..) => None,
        Source::Sub(_) => None,
    }
}

pub fn table_cols(name: &str) -> Vec<String> {
    match name {
        "t" => T_COLS.iter().map(|s| s.to_string()).collect(),
        "u" => U_COLS.iter().map(|s| s.to_string()).collect(),
        // user tables named like generated ones (C09) share t's layout
        _ => T_COLS.iter().map(|s| s.to_string()).collect(),
    }
}

/// Frame of a source as seen under relation alias `alias` (None: the source's own name).
pub fn source_frame(src: &Source, alias: Option<&str>, prog: &Program) -> Frame {
    let own = source_name(src, prog);
    let al = alias.map(|s| s.to_string()).or(own);
    match src {
        Source::Table(n) => Frame {
            cols: table_cols(n).into_iter().map(|c| FCol { name: Some(c), input: al.clone() }).collect(),
            inputs: al.iter().cloned().collect(),
            open: al.iter().cloned().collect(),
        },
        Source::Lit(names, _) => Frame {
            cols: names.iter().map(|c| FCol { name: Some(c.clone()), input: al.clone() }).collect(),
            inputs: al.iter().cloned().collect(),
            open: vec![],
        },
        Source::Let(i) => {
            let f = pipeline_frame(&prog.lets[*i].1, prog);
            rebase(f, al)
        }
        Source::Sub(p) => {
            let f = pipeline_frame(p, prog);
            rebase(f, al)
        }
    }
}

/// A relation seen from outside under one alias: every column is `alias.name`; the frame is open
/// if the inner one was.
fn rebase(f: Frame, al: Option<String>) -> Frame {
    let open = !f.open.is_empty();
    Frame {
        cols: f.cols.into_iter().map(|c| FCol { name: c.name, input: al.clone() }).collect(),
        inputs: al.iter().cloned().collect(),
        open: if open { al.iter().cloned().collect() } else { vec![] },
    }
}

pub fn pipeline_frame(p: &Pipeline, prog: &Program) -> Frame {
    let mut f = source_frame(&p.src, None, prog);
    for s in &p.steps {
        f = step_frame(s, &f, prog);
    }
    f
}

pub fn item_col(it: &Item, f: &Frame) -> FCol {
    match (&it.alias, &it.e) {
        (Some(a), _) => FCol { name: Some(a.clone()), input: None },
        (None, E::Col(i)) => f.cols[*i].clone(),
        _ => FCol { name: None, input: None },
    }
}

/// Frame seen by the pipeline inside `group keys (...)`: the non-key columns, and for each of
/// them its index in the outer frame.
pub fn group_inner_frame(f: &Frame, keys: &[usize]) -> (Frame, Vec<usize>) {
    let map: Vec<usize> = (0..f.cols.len()).filter(|i| !keys.contains(i)).collect();
    (Frame { cols: map.iter().map(|&i| f.cols[i].clone()).collect(), inputs: f.inputs.clone(), open: f.open.clone() }, map)
}

pub fn step_frame(s: &Step, f: &Frame, prog: &Program) -> Frame {
    match s {
        Step::Select(items) => {
            let mut out = Frame { cols: vec![], inputs: f.inputs.clone(), open: vec![] };
            for it in items {
                let c = item_col(it, f);
                if let Some(n) = &c.name {
                    // same bare name *and* same qualifier ⇒ the earlier one is shadowed
                    for o in &mut out.cols {
                        if o.name.as_ref() == Some(n) && (o.input == c.input || c.input.is_none() || o.input.is_none()) {
                            o.name = None;
                        }
                    }
                }
                out.cols.push(c);
            }
            out
        }
        Step::SelectExcept(ex) => Frame {
            cols: (0..f.cols.len()).filter(|i| !ex.contains(i)).map(|i| f.cols[i].clone()).collect(),
            inputs: f.inputs.clone(),
            open: f.open.clone(),
        },
        Step::Derive(items) => {
            let mut out = f.clone();
            for it in items {
                let c = item_col(it, f);
                if let Some(n) = &c.name {
                    out.shadow(n);
                }
                out.cols.push(c);
            }
            out
        }
        Step::Filter(_) | Step::Sort(_) | Step::Take(..) => f.clone(),
        Step::Join { right, alias, .. } => {
            let r = source_frame(right, alias.as_deref(), prog);
            let mut out = f.clone();
            out.cols.extend(r.cols);
            for i in r.inputs {
                if !out.inputs.contains(&i) {
                    out.inputs.push(i);
                }
            }
            for i in r.open {
                if !out.open.contains(&i) {
                    out.open.push(i);
                }
            }
            out
        }
        Step::Aggregate(aggs) => Frame {
            cols: aggs.iter().map(|(a, _, _)| FCol { name: Some(a.clone()), input: None }).collect(),
            inputs: f.inputs.clone(),
            open: vec![],
        },
        Step::Group { keys, inner } => {
            // inside `group` the key columns are not part of the frame; the result is keys ++ inner result
            let mut g = group_inner_frame(f, keys).0;
            for s in inner {
                g = step_frame(s, &g, prog);
            }
            let mut cols: Vec<FCol> = keys.iter().map(|&k| f.cols[k].clone()).collect();
            for c in &g.cols {
                if let Some(n) = &c.name {
                    for k in cols.iter_mut() {
                        if k.name.as_ref() == Some(n) && (k.input == c.input || c.input.is_none() || k.input.is_none()) {
                            k.name = None;
                        }
                    }
                }
            }
            cols.extend(g.cols);
            Frame { cols, inputs: f.inputs.clone(), open: g.open }
        }
        Step::Window { inner, .. } => {
            let mut g = f.clone();
            for s in inner {
                g = step_frame(s, &g, prog);
            }
            g
        }
        Step::Append(src) => {
            // column names come from the top relation; a column it leaves unnamed takes the name the bottom
            // relation gives to that position (the compiler intersects the two tuple types field by field)
            let bottom = source_frame(src, None, prog);
            let mut g = f.clone();
            for (i, c) in g.cols.iter_mut().enumerate() {
                if c.name.is_none() {
                    if let Some(b) = bottom.cols.get(i) {
                        if let Some(n) = &b.name {
                            c.name = Some(n.clone());
                            c.input = None;
                        }
                    }
                }
            }
            g
        }
    }
}

// ------------------------------------------------------------------ printer

fn pr_expr(e: &E, fr: &Frame, prog: &Program, top: bool) -> String {
    let f = fr;
    match e {
        E::Col(i) => f.refname(*i).unwrap_or_else(|| format!("<unref {i}>")),
        E::Int(i) => {
            if *i < 0 && !top {
                format!("({i})")
            } else {
                i.to_string()
            }
        }
        E::Null => "null".into(),
        E::Bin(op, l, r) => {
            let s = format!("{} {} {}", pr_expr(l, f, prog, false), op.sym(), pr_expr(r, f, prog, false));
            if top {
                s
            } else {
                format!("({s})")
            }
        }
        E::IsNull(x) => {
            let s = format!("{} == null", pr_expr(x, f, prog, false));
            if top {
                s
            } else {
                format!("({s})")
            }
        }
        E::Win(w, arg) => {
            let s = match arg {
                Some(i) => format!("{} {}", w.name(), f.refname(*i).unwrap_or_else(|| format!("<unref {i}>"))),
                None => format!("{} this", w.name()),
            };
            if top {
                s
            } else {
                format!("({s})")
            }
        }
        E::Call(i, args) => {
            let f = &prog.funcs[*i];
            let a: Vec<String> = args.iter().map(|a| pr_expr(a, fr, prog, false)).collect();
            let s = match f.style {
                CallStyle::Plain => format!("{} {}", f.name, a.join(" ")),
                CallStyle::NamedExplicit => format!(
                    "{} {} {}",
                    f.name,
                    f.named.iter().map(|(n, d)| format!("{n}:{d}")).collect::<Vec<_>>().join(" "),
                    a.join(" ")
                ),
                CallStyle::Piped => {
                    let (last, init) = a.split_last().unwrap();
                    format!("({} | {} {})", last, f.name, init.join(" ")).replace(" )", ")")
                }
            };
            let _ = top;
            if f.style == CallStyle::Piped {
                s
            } else {
                format!("({s})")
            }
        }
    }
}

fn pr_items(items: &[Item], f: &Frame, prog: &Program) -> String {
    let v: Vec<String> = items
        .iter()
        .map(|it| match &it.alias {
            Some(a) => format!("{} = {}", pr_ident(a), pr_expr(&it.e, f, prog, true)),
            None => pr_expr(&it.e, f, prog, true),
        })
        .collect();
    format!("{{{}}}", v.join(", "))
}

fn pr_range(lo: Option<i64>, hi: Option<i64>) -> String {
    let b = |x: i64| if x < 0 { format!("({x})") } else { x.to_string() };
    match (lo, hi) {
        (Some(l), Some(h)) => format!("{}..{}", b(l), b(h)),
        (Some(l), None) => format!("{}..", b(l)),
        (None, Some(h)) => format!("..{}", b(h)),
        (None, None) => "..".into(),
    }
}

pub fn pr_source(src: &Source, prog: &Program, as_from: bool) -> String {
    match src {
        Source::Table(n) => pr_ident(n),
        Source::Let(i) => match prog.style(*i) {
            LetStyle::Module => format!("mm.{}", pr_ident(&prog.lets[*i].0)),
            _ => pr_ident(&prog.lets[*i].0),
        },
        Source::Lit(names, rows) => {
            let rs: Vec<String> = rows
                .iter()
                .map(|r| {
                    let cells: Vec<String> = names
                        .iter()
                        .zip(r)
                        .map(|(n, v)| {
                            format!(
                                "{}={}",
                                pr_ident(n),
                                match v {
                                    V::Null => "null".to_string(),
                                    V::Int(i) => i.to_string(),
                                    V::Real(r) => format!("{r:?}"),
                                    V::Text(s) => format!("'{s}'"),
                                }
                            )
                        })
                        .collect();
                    format!("{{{}}}", cells.join(", "))
                })
                .collect();
            format!("[{}]", rs.join(", "))
        }
        Source::Sub(p) => {
            let s = pr_pipeline(p, prog, " | ");
            if as_from {
                s
            } else {
                format!("({s})")
            }
        }
    }
}

pub fn pr_step(s: &Step, f: &Frame, prog: &Program) -> String {
    match s {
        Step::Select(items) => format!("select {}", pr_items(items, f, prog)),
        Step::SelectExcept(ex) => format!("select !{{{}}}", ex.iter().map(|&i| f.refname(i).unwrap_or_else(|| format!("<unref {i}>"))).collect::<Vec<_>>().join(", ")),
        Step::Derive(items) => format!("derive {}", pr_items(items, f, prog)),
        Step::Filter(e) => format!("filter {}", pr_expr(e, f, prog, true)),
        Step::Sort(keys) => {
            let v: Vec<String> = keys
                .iter()
                .map(|(desc, e)| {
                    let s = pr_expr(e, f, prog, false);
                    if *desc {
                        format!("-{s}")
                    } else {
                        s
                    }
                })
                .collect();
            format!("sort {{{}}}", v.join(", "))
        }
        Step::Take(lo, hi) => match (lo, hi) {
            (Some(1), Some(n)) => format!("take {n}"),
            _ => format!("take {}", pr_range(*lo, *hi)),
        },
        Step::Join { side, right, alias, cond } => {
            let rf = source_frame(right, alias.as_deref(), prog);
            let mut comb = f.clone();
            comb.cols.extend(rf.cols.clone());
            comb.inputs.extend(rf.inputs.clone());
            comb.open.extend(rf.open.clone());
            let c = match cond {
                Cond::EqName(n) => format!("(=={})", pr_ident(n)),
                Cond::True => "true".to_string(),
                Cond::Expr(e) => format!("({})", pr_expr(e, &comb, prog, true)),
            };
            let sd = match side {
                Side::Inner => "",
                Side::Left => "side:left ",
                Side::Right => "side:right ",
                Side::Full => "side:full ",
            };
            let rs = match right {
                Source::Sub(_) => pr_source(right, prog, false),
                Source::Lit(..) => format!("(from {})", pr_source(right, prog, true)),
                _ => pr_source(right, prog, false),
            };
            match alias {
                Some(a) => format!("join {sd}{}={rs} {c}", pr_ident(a)),
                None => format!("join {sd}{rs} {c}"),
            }
        }
        Step::Aggregate(aggs) => {
            let v: Vec<String> = aggs
                .iter()
                .map(|(a, g, arg)| {
                    let arg = match (g, arg) {
                        (Agg::CountThis, _) | (_, None) => "this".to_string(),
                        (_, Some(i)) => f.refname(*i).unwrap_or_else(|| format!("<unref {i}>")),
                    };
                    if *g == Agg::SumPlusCount {
                        format!("{} = (sum {arg}) + (count {arg})", pr_ident(a))
                    } else {
                        format!("{} = {} {}", pr_ident(a), g.name(), arg)
                    }
                })
                .collect();
            format!("aggregate {{{}}}", v.join(", "))
        }
        Step::Group { keys, inner } => {
            let ks: Vec<String> =
                keys.iter().map(|&k| f.refname(k).unwrap_or_else(|| format!("<unref {k}>"))).collect();
            format!("group {{{}}} ({})", ks.join(", "), pr_steps(inner, &group_inner_frame(f, keys).0, prog, " | "))
        }
        Step::Window { kind, inner } => {
            let k = match kind {
                FrameKind::Rows(l, h) => format!("rows:{}", pr_range(*l, *h)),
                FrameKind::Range(l, h) => format!("range:{}", pr_range(*l, *h)),
                FrameKind::Rolling(n) => format!("rolling:{n}"),
                FrameKind::Expanding => "expanding:true".to_string(),
            };
            format!("window {k} ({})", pr_steps(inner, f, prog, " | "))
        }
        Step::Append(src) => match src {
            Source::Sub(_) => format!("append {}", pr_source(src, prog, false)),
            Source::Lit(..) => format!("append (from {})", pr_source(src, prog, true)),
            _ => format!("append {}", pr_source(src, prog, false)),
        },
    }
}

fn pr_steps(steps: &[Step], f0: &Frame, prog: &Program, sep: &str) -> String {
    let mut f = f0.clone();
    let mut out = vec![];
    for s in steps {
        out.push(pr_step(s, &f, prog));
        f = step_frame(s, &f, prog);
    }
    out.join(sep)
}

pub fn pr_pipeline(p: &Pipeline, prog: &Program, sep: &str) -> String {
    let f = source_frame(&p.src, None, prog);
    let head = match &p.src {
        Source::Sub(q) => format!("from ({})", pr_pipeline(q, prog, " | ")),
        s => format!("from {}", pr_source(s, prog, true)),
    };
    if p.steps.is_empty() {
        head
    } else {
        format!("{head}{sep}{}", pr_steps(&p.steps, &f, prog, sep))
    }
}

pub fn pr_program(prog: &Program) -> String {
    let mut out = pr_program_plain(prog);
    // textual variants of the same program (C04: a partition key repeated in the sort of its group)
    for (from, to) in &prog.text_rewrites {
        out = out.replace(from.as_str(), to.as_str());
    }
    out
}

fn pr_program_plain(prog: &Program) -> String {
    let mut out = String::new();
    for f in &prog.funcs {
        let mut names: Vec<String> = f.params.clone();
        names.extend(f.named.iter().map(|(n, _)| n.clone()));
        let pf = Frame {
            cols: names.iter().map(|p| FCol { name: Some(p.clone()), input: None }).collect(),
            inputs: vec![],
            open: vec![],
        };
        let mut sig: Vec<String> = f.named.iter().map(|(n, d)| format!("{n}:{d}")).collect();
        sig.extend(f.params.iter().cloned());
        out.push_str(&format!("let {} = func {} -> {}\n", f.name, sig.join(" "), pr_expr(&f.body, &pf, prog, true)));
    }
    for (i, (n, p)) in prog.lets.iter().enumerate() {
        match prog.style(i) {
            LetStyle::Let => out.push_str(&format!("let {} = (\n  {}\n)\n", pr_ident(n), pr_pipeline(p, prog, "\n  "))),
            LetStyle::Into => out.push_str(&format!("{}\ninto {}\n\n", pr_pipeline(p, prog, "\n"), pr_ident(n))),
            LetStyle::Module => out.push_str(&format!("module mm {{\n  let {} = (\n    {}\n  )\n}}\n", pr_ident(n), pr_pipeline(p, prog, "\n    "))),
        }
    }
    if let Some(m) = &prog.main {
        out.push_str(&pr_pipeline(m, prog, "\n"));
        out.push('\n');
    }
    out
}

/// body of a user function with its parameters replaced by the call's arguments
fn inline_call(body: &E, args: &[E], named: &[(String, i64)]) -> R<E> {
    Ok(match body {
        E::Col(k) => match args.get(*k) {
            Some(a) => a.clone(),
            None => E::Int(named.get(*k - args.len()).map(|n| n.1).ok_or_else(|| Undecided("parameter index".into()))?),
        },
        E::Int(_) | E::Null => body.clone(),
        E::IsNull(x) => E::IsNull(Box::new(inline_call(x, args, named)?)),
        E::Bin(op, l, r) => E::bin(*op, inline_call(l, args, named)?, inline_call(r, args, named)?),
        E::Win(w, None) => E::Win(*w, None),
        E::Win(w, Some(k)) => match args.get(*k) {
            Some(E::Col(i)) => E::Win(*w, Some(*i)),
            _ => return Err(Undecided("window function over a computed argument".into())),
        },
        E::Call(j, a) => E::Call(*j, a.iter().map(|x| inline_call(x, args, named)).collect::<R<_>>()?),
    })
}

// ------------------------------------------------------------------ reference interpreter

#[derive(Clone, Debug)]
pub struct Row {
    pub vals: Vec<V>,
    /// hidden: values of the sort keys in effect
    pub keys: Vec<V>,
}

#[derive(Clone, Debug)]
pub struct Rel {
    pub frame: Frame,
    pub rows: Vec<Row>,
    /// Some(directions) if a sort is in effect (rows are stored in that order)
    pub order: Option<Vec<bool>>,
}

#[derive(Clone, Debug, PartialEq)]
pub struct Undecided(pub String);

type R<T> = Result<T, Undecided>;

fn und<T>(s: &str) -> R<T> {
    Err(Undecided(s.to_string()))
}

pub fn key_cmp(a: &[V], b: &[V], desc: &[bool], nulls_small: bool) -> Ordering {
    for ((x, y), d) in a.iter().zip(b).zip(desc) {
        let o = match (x.is_null(), y.is_null()) {
            (true, true) => Ordering::Equal,
            (true, false) => {
                if nulls_small {
                    Ordering::Less
                } else {
                    Ordering::Greater
                }
            }
            (false, true) => {
                if nulls_small {
                    Ordering::Greater
                } else {
                    Ordering::Less
                }
            }
            _ => v_cmp(x, y),
        };
        let o = if *d { o.reverse() } else { o };
        if o != Ordering::Equal {
            return o;
        }
    }
    Ordering::Equal
}

/// segment context for window functions
struct Seg<'a> {
    rows: &'a [Row],
    /// index of the current row in `rows`
    idx: usize,
    order: Option<&'a [bool]>,
    frame: Option<FrameKind>,
}

pub struct Interp<'a> {
    pub prog: &'a Program,
    pub inst: &'a Inst,
    pub lets: Vec<Rel>,
}

impl<'a> Interp<'a> {
    pub fn new(prog: &'a Program, inst: &'a Inst) -> R<Self> {
        let mut me = Interp { prog, inst, lets: vec![] };
        for (_, p) in &prog.lets {
            let r = me.pipeline(p)?;
            me.lets.push(r);
        }
        Ok(me)
    }

    pub fn run(prog: &Program, inst: &Inst) -> R<Rel> {
        let me = Interp::new(prog, inst)?;
        me.pipeline(prog.main.as_ref().expect("program has a main pipeline"))
    }

    fn source(&self, src: &Source, alias: Option<&str>) -> R<Rel> {
        let frame = source_frame(src, alias, self.prog);
        let rows: Vec<Row> = match src {
            Source::Table(n) => {
                let data = if n == "u" { &self.inst.u } else { &self.inst.t };
                data.iter().map(|r| Row { vals: r.clone(), keys: vec![] }).collect()
            }
            Source::Lit(_, rows) => rows.iter().map(|r| Row { vals: r.clone(), keys: vec![] }).collect(),
            Source::Let(i) => self.lets[*i].rows.iter().map(|r| Row { vals: r.vals.clone(), keys: vec![] }).collect(),
            Source::Sub(p) => self.pipeline(p)?.rows.into_iter().map(|r| Row { vals: r.vals, keys: vec![] }).collect(),
        };
        // order of a named / nested relation is not carried into its consumer by this model
        // (the property speaks about sorts "in the pipeline"); exception: see `pipeline`.
        Ok(Rel { frame, rows, order: None })
    }

    pub fn pipeline(&self, p: &Pipeline) -> R<Rel> {
        let mut rel = match &p.src {
            // `from x` / `from (..)` continues the relation *including* its order when the
            // named pipeline ended sorted (let/into boundaries are documented as transparent)
            Source::Let(i) => {
                let inner = &self.lets[*i];
                Rel { frame: source_frame(&p.src, None, self.prog), rows: inner.rows.clone(), order: inner.order.clone() }
            }
            Source::Sub(q) => {
                let inner = self.pipeline(q)?;
                Rel { frame: source_frame(&p.src, None, self.prog), rows: inner.rows, order: inner.order }
            }
            s => self.source(s, None)?,
        };
        for s in &p.steps {
            rel = self.step(s, rel, None)?;
        }
        Ok(rel)
    }

    fn eval(&self, e: &E, row: &Row, seg: Option<&Seg>) -> R<V> {
        Ok(match e {
            E::Col(i) => row.vals[*i].clone(),
            E::Int(i) => V::Int(*i),
            E::Null => V::Null,
            E::IsNull(x) => V::Int(self.eval(x, row, seg)?.is_null() as i64),
            E::Bin(op, l, r) => {
                let a = self.eval(l, row, seg)?;
                let b = self.eval(r, row, seg)?;
                bin(*op, &a, &b)?
            }
            E::Call(i, args) if self.prog.funcs[*i].body.has_win() => {
                // a function whose body applies a window / aggregation function to its parameter: the call means
                // the body with the argument columns substituted, evaluated over the caller's segment
                let f = &self.prog.funcs[*i];
                let inl = inline_call(&f.body, args, &f.named)?;
                self.eval(&inl, row, seg)?
            }
            E::Call(i, args) => {
                let f = &self.prog.funcs[*i];
                let mut vals: Vec<V> = args.iter().map(|a| self.eval(a, row, seg)).collect::<R<_>>()?;
                vals.extend(f.named.iter().map(|(_, d)| V::Int(*d)));
                let prow = Row { vals, keys: vec![] };
                self.eval(&f.body, &prow, None)?
            }
            E::Win(w, arg) => {
                let seg = seg.ok_or_else(|| Undecided("window function without segment".into()))?;
                window_value(*w, *arg, seg)?
            }
        })
    }

    fn step(&self, s: &Step, rel: Rel, group: Option<&[usize]>) -> R<Rel> {
        let frame_out = step_frame(s, &rel.frame, self.prog);
        let _ = group;
        match s {
            Step::Select(items) | Step::Derive(items) => {
                let derive = matches!(s, Step::Derive(_));
                let rows = self.map_rows(&rel, None, None, |me, row, seg| {
                    let mut vals = if derive { row.vals.clone() } else { vec![] };
                    for it in items {
                        vals.push(me.eval(&it.e, row, seg)?);
                    }
                    Ok(Some(Row { vals, keys: row.keys.clone() }))
                })?;
                Ok(Rel { frame: frame_out, rows, order: rel.order })
            }
            Step::SelectExcept(ex) => {
                let rows = rel.rows.iter().map(|r| Row { vals: (0..r.vals.len()).filter(|i| !ex.contains(i)).map(|i| r.vals[i].clone()).collect(), keys: r.keys.clone() }).collect();
                Ok(Rel { frame: frame_out, rows, order: rel.order })
            }
            Step::Filter(e) => {
                let rows = self.map_rows(&rel, None, None, |me, row, seg| {
                    Ok(if me.eval(e, row, seg)?.truth() == Some(true) { Some(row.clone()) } else { None })
                })?;
                Ok(Rel { frame: frame_out, rows, order: rel.order })
            }
            Step::Sort(keys) => {
                let desc: Vec<bool> = keys.iter().map(|(d, _)| *d).collect();
                let mut rows = self.map_rows(&rel, None, None, |me, row, seg| {
                    let mut ks = vec![];
                    for (_, e) in keys {
                        ks.push(me.eval(e, row, seg)?);
                    }
                    Ok(Some(Row { vals: row.vals.clone(), keys: ks }))
                })?;
                rows.sort_by(|a, b| key_cmp(&a.keys, &b.keys, &desc, true));
                Ok(Rel { frame: frame_out, rows, order: Some(desc) })
            }
            Step::Take(lo, hi) => {
                if rel.order.is_none() {
                    // without an order the positions are interchangeable only if all rows are equal
                    // (`group {all columns} (take 1)`, the DISTINCT idiom)
                    let all_equal = rel.rows.windows(2).all(|w| row_eq(&w[0].vals, &w[1].vals) && w[0].vals.iter().zip(&w[1].vals).all(|(a, b)| a.is_null() == b.is_null()));
                    if all_equal {
                        let n = rel.rows.len() as i64;
                        let start = (lo.unwrap_or(1) - 1).clamp(0, n);
                        let end = hi.map(|h| h.min(n)).unwrap_or(n).max(start);
                        return Ok(Rel { frame: frame_out, rows: rel.rows[start as usize..end as usize].to_vec(), order: None });
                    }
                    return und("take with no order in effect");
                }
                let Some(desc) = &rel.order else { return und("take with no order in effect") };
                let rows = take_rows(&rel.rows, desc, *lo, *hi)?;
                Ok(Rel { frame: frame_out, rows, order: rel.order })
            }
            Step::Join { side, right, alias, cond } => {
                let r = self.source(right, alias.as_deref())?;
                let nl = rel.frame.cols.len();
                let nr = r.frame.cols.len();
                let cond_e: Option<E> = match cond {
                    Cond::True => None,
                    Cond::Expr(e) => Some(e.clone()),
                    Cond::EqName(n) => {
                        let li = (0..nl).rev().find(|&i| rel.frame.cols[i].name.as_deref() == Some(n));
                        let ri = (0..nr).find(|&i| r.frame.cols[i].name.as_deref() == Some(n));
                        match (li, ri) {
                            (Some(l), Some(ri)) => Some(E::bin(Op::Eq, E::Col(l), E::Col(nl + ri))),
                            _ => return und("(==name) on a missing column"),
                        }
                    }
                };
                let mut rows = vec![];
                let mut right_matched = vec![false; r.rows.len()];
                for lrow in &rel.rows {
                    let mut matched = false;
                    for (ri, rrow) in r.rows.iter().enumerate() {
                        let mut vals = lrow.vals.clone();
                        vals.extend(rrow.vals.iter().cloned());
                        let cand = Row { vals, keys: lrow.keys.clone() };
                        let ok = match &cond_e {
                            None => true,
                            Some(e) => self.eval(e, &cand, None)?.truth() == Some(true),
                        };
                        if ok {
                            matched = true;
                            right_matched[ri] = true;
                            rows.push(cand);
                        }
                    }
                    if !matched && matches!(side, Side::Left | Side::Full) {
                        let mut vals = lrow.vals.clone();
                        vals.extend(std::iter::repeat(V::Null).take(nr));
                        rows.push(Row { vals, keys: lrow.keys.clone() });
                    }
                }
                // unmatched right rows (right / full joins) are padded on the left; they carry no sort key:
                // the order in effect is no longer defined for them
                let mut order = rel.order;
                if matches!(side, Side::Right | Side::Full) {
                    for (ri, rrow) in r.rows.iter().enumerate() {
                        if !right_matched[ri] {
                            let mut vals: Vec<V> = std::iter::repeat(V::Null).take(nl).collect();
                            vals.extend(rrow.vals.iter().cloned());
                            rows.push(Row { vals, keys: vec![] });
                            order = None;
                        }
                    }
                    if order.is_some() {
                        order = None;
                    }
                }
                Ok(Rel { frame: frame_out, rows, order })
            }
            Step::Aggregate(aggs) => {
                let vals = aggregate(aggs, &rel.rows)?;
                Ok(Rel { frame: frame_out, rows: vec![Row { vals, keys: vec![] }], order: None })
            }
            Step::Group { keys, inner } => {
                // partition by key values (NULL is a key value), first-appearance order
                let mut parts: Vec<(Vec<V>, Vec<Row>)> = vec![];
                for row in &rel.rows {
                    let k: Vec<V> = keys.iter().map(|&i| row.vals[i].clone()).collect();
                    match parts.iter_mut().find(|(pk, _)| pk.len() == k.len() && pk.iter().zip(&k).all(|(a, b)| group_eq(a, b))) {
                        Some(p) => p.1.push(row.clone()),
                        None => parts.push((k, vec![row.clone()])),
                    }
                }
                let (inner_frame, map) = group_inner_frame(&rel.frame, keys);
                let mut rows = vec![];
                for (k, prow) in parts {
                    // whether a sort *before* `group` orders the partitions is not documented (the
                    // compiler does not carry it in): inside the group no order is in effect until
                    // the inner pipeline sorts, so order-dependent results there are undecided
                    let prow: Vec<Row> = prow
                        .into_iter()
                        .map(|r| Row { vals: map.iter().map(|&i| r.vals[i].clone()).collect(), keys: vec![] })
                        .collect();
                    let mut part = Rel { frame: inner_frame.clone(), rows: prow, order: None };
                    for st in inner {
                        part = self.step_in_segment(st, part, &rel)?;
                    }
                    for r in part.rows {
                        let mut v = k.clone();
                        v.extend(r.vals);
                        rows.push(Row { vals: v, keys: vec![] });
                    }
                }
                Ok(Rel { frame: frame_out, rows, order: None })
            }
            Step::Window { kind, inner } => {
                let mut cur = rel;
                for st in inner {
                    cur = self.step_windowed(st, cur, Some(*kind))?;
                }
                Ok(cur)
            }
            Step::Append(src) => {
                let r = self.source(src, None)?;
                if r.frame.cols.len() != rel.frame.cols.len() {
                    return und("append of different arity");
                }
                let mut rows: Vec<Row> = rel.rows.into_iter().map(|r| Row { vals: r.vals, keys: vec![] }).collect();
                rows.extend(r.rows);
                Ok(Rel { frame: frame_out, rows, order: None })
            }
        }
    }

    /// a step executed inside `group` on one partition
    fn step_in_segment(&self, st: &Step, part: Rel, _outer: &Rel) -> R<Rel> {
        match st {
            Step::Window { kind, inner } => {
                let mut cur = part;
                for s in inner {
                    cur = self.step_windowed(s, cur, Some(*kind))?;
                }
                Ok(cur)
            }
            _ => self.step_windowed(st, part, None),
        }
    }

    /// a step whose expressions may contain window functions over the whole `rel` as segment
    fn step_windowed(&self, st: &Step, rel: Rel, kind: Option<FrameKind>) -> R<Rel> {
        match st {
            Step::Select(items) | Step::Derive(items) => {
                let derive = matches!(st, Step::Derive(_));
                let frame_out = step_frame(st, &rel.frame, self.prog);
                let rows = self.map_rows(&rel, kind, None, |me, row, seg| {
                    let mut vals = if derive { row.vals.clone() } else { vec![] };
                    for it in items {
                        vals.push(me.eval(&it.e, row, seg)?);
                    }
                    Ok(Some(Row { vals, keys: row.keys.clone() }))
                })?;
                Ok(Rel { frame: frame_out, rows, order: rel.order })
            }
            Step::Filter(e) => {
                let rows = self.map_rows(&rel, kind, None, |me, row, seg| {
                    Ok(if me.eval(e, row, seg)?.truth() == Some(true) { Some(row.clone()) } else { None })
                })?;
                Ok(Rel { frame: rel.frame.clone(), rows, order: rel.order })
            }
            _ => self.step(st, rel, None),
        }
    }

    /// Evaluate `f` for every row with the whole relation as window segment.
    fn map_rows(
        &self,
        rel: &Rel,
        kind: Option<FrameKind>,
        _unused: Option<()>,
        f: impl Fn(&Self, &Row, Option<&Seg>) -> R<Option<Row>>,
    ) -> R<Vec<Row>> {
        let mut out = vec![];
        for (idx, row) in rel.rows.iter().enumerate() {
            let seg = Seg { rows: &rel.rows, idx, order: rel.order.as_deref(), frame: kind };
            if let Some(r) = f(self, row, Some(&seg))? {
                out.push(r);
            }
        }
        Ok(out)
    }
}

fn group_eq(a: &V, b: &V) -> bool {
    match (a, b) {
        (V::Null, V::Null) => true,
        (V::Null, _) | (_, V::Null) => false,
        _ => v_cmp(a, b) == Ordering::Equal,
    }
}

pub fn bin(op: Op, a: &V, b: &V) -> R<V> {
    use Op::*;
    Ok(match op {
        Add | Sub | Mul => match (a, b) {
            (V::Null, _) | (_, V::Null) => V::Null,
            (V::Int(x), V::Int(y)) => {
                let r = match op {
                    Add => x.checked_add(*y),
                    Sub => x.checked_sub(*y),
                    _ => x.checked_mul(*y),
                };
                match r {
                    Some(v) => V::Int(v),
                    None => return und("integer overflow"),
                }
            }
            _ => match (a.as_f64(), b.as_f64()) {
                (Some(x), Some(y)) => V::Real(match op {
                    Add => x + y,
                    Sub => x - y,
                    _ => x * y,
                }),
                _ => return und("arithmetic on text"),
            },
        },
        Gt | Lt | Eq | Ne | Lte | Gte => {
            if a.is_null() || b.is_null() {
                V::Null
            } else {
                let o = v_cmp(a, b);
                V::Int(match op {
                    Gt => o == Ordering::Greater,
                    Lt => o == Ordering::Less,
                    Eq => o == Ordering::Equal,
                    Lte => o != Ordering::Greater,
                    Gte => o != Ordering::Less,
                    _ => o != Ordering::Equal,
                } as i64)
            }
        }
        And => match (a.truth(), b.truth()) {
            (Some(false), _) | (_, Some(false)) => V::Int(0),
            (Some(true), Some(true)) => V::Int(1),
            _ => V::Null,
        },
        Or => match (a.truth(), b.truth()) {
            (Some(true), _) | (_, Some(true)) => V::Int(1),
            (Some(false), Some(false)) => V::Int(0),
            _ => V::Null,
        },
    })
}

/// `take lo..hi` (1-based, inclusive) of rows stored in the order in effect. Decided only if the
/// selected multiset does not depend on how ties / NULL keys are placed.
fn take_rows(rows: &[Row], desc: &[bool], lo: Option<i64>, hi: Option<i64>) -> R<Vec<Row>> {
    let n = rows.len() as i64;
    let lo = lo.unwrap_or(1);
    if lo < 1 {
        return und("take with non-positive start");
    }
    let start = (lo - 1).min(n);
    let end = hi.map(|h| h.min(n)).unwrap_or(n).max(start);
    if rows.iter().any(|r| r.keys.iter().any(|k| k.is_null())) {
        return und("take under an order with NULL keys");
    }
    for cut in [start, end] {
        if cut > 0 && cut < n {
            let (a, b) = (&rows[(cut - 1) as usize], &rows[cut as usize]);
            if key_cmp(&a.keys, &b.keys, desc, true) == Ordering::Equal {
                return und("take cuts through a tie of the sort key");
            }
        }
    }
    Ok(rows[start as usize..end as usize].to_vec())
}

fn agg_value(g: Agg, vals: &[V], nrows: usize) -> R<V> {
    let nn: Vec<&V> = vals.iter().filter(|v| !v.is_null()).collect();
    Ok(match g {
        Agg::CountThis | Agg::Count => V::Int(nrows as i64),
        Agg::Sum => {
            if nn.iter().all(|v| matches!(v, V::Int(_))) {
                let mut s: i64 = 0;
                for v in &nn {
                    if let V::Int(i) = v {
                        s = s.checked_add(*i).ok_or_else(|| Undecided("integer overflow".into()))?;
                    }
                }
                V::Int(s)
            } else {
                V::Real(nn.iter().filter_map(|v| v.as_f64()).sum())
            }
        }
        Agg::Min => nn.iter().min_by(|a, b| v_cmp(a, b)).map(|v| (*v).clone()).unwrap_or(V::Null),
        Agg::Max => nn.iter().max_by(|a, b| v_cmp(a, b)).map(|v| (*v).clone()).unwrap_or(V::Null),
        Agg::Average => {
            if nn.is_empty() {
                V::Null
            } else {
                V::Real(nn.iter().filter_map(|v| v.as_f64()).sum::<f64>() / nn.len() as f64)
            }
        }
        Agg::SumPlusCount => {
            let s = agg_value(Agg::Sum, vals, nrows)?;
            match s {
                V::Int(i) => V::Int(i.checked_add(nrows as i64).ok_or_else(|| Undecided("integer overflow".into()))?),
                V::Real(r) => V::Real(r + nrows as f64),
                _ => V::Null,
            }
        }
    })
}

fn aggregate(aggs: &[(String, Agg, Option<usize>)], rows: &[Row]) -> R<Vec<V>> {
    aggs.iter()
        .map(|(_, g, arg)| {
            let vals: Vec<V> = match arg {
                Some(i) => rows.iter().map(|r| r.vals[*i].clone()).collect(),
                None => vec![],
            };
            agg_value(*g, &vals, rows.len())
        })
        .collect()
}

/// Value of a window function for the row `seg.idx` of its segment.
fn window_value(w: WinFn, arg: Option<usize>, seg: &Seg) -> R<V> {
    let n = seg.rows.len();
    let i = seg.idx;
    let ordered = seg.order.is_some();
    let desc = seg.order.unwrap_or(&[]);
    let tie = |a: usize, b: usize| key_cmp(&seg.rows[a].keys, &seg.rows[b].keys, desc, true) == Ordering::Equal;
    let total = || -> bool {
        ordered
            && !seg.rows.iter().any(|r| r.keys.iter().any(|k| k.is_null()))
            && (1..n).all(|j| !tie(j - 1, j))
    };
    let col = |j: usize| -> V { arg.map(|c| seg.rows[j].vals[c].clone()).unwrap_or(V::Null) };
    // which rows of the segment are in the frame of row i
    let frame_rows: Vec<usize> = match seg.frame {
        None => {
            // no window clause: the whole segment
            (0..n).collect()
        }
        Some(FrameKind::Rows(lo, hi)) => {
            if !total() && n > 1 {
                return und("rows frame under a non-total order");
            }
            let a = lo.map(|l| i as i64 + l).unwrap_or(0).max(0);
            let b = hi.map(|h| i as i64 + h).unwrap_or(n as i64 - 1).min(n as i64 - 1);
            (a..=b).filter(|&j| j >= 0).map(|j| j as usize).collect()
        }
        Some(FrameKind::Rolling(k)) => {
            if !total() && n > 1 {
                return und("rows frame under a non-total order");
            }
            let a = (i as i64 + 1 - k).max(0);
            (a..=i as i64).map(|j| j as usize).collect()
        }
        Some(FrameKind::Expanding) => {
            if !total() && n > 1 {
                return und("rows frame under a non-total order");
            }
            (0..=i).collect()
        }
        Some(FrameKind::Range(lo, hi)) => {
            // decided only for a single non-null numeric ascending key
            if !ordered || desc.len() != 1 || seg.rows.iter().any(|r| r.keys[0].as_f64().is_none()) {
                return und("range frame without a single non-null numeric key");
            }
            let sign = if desc[0] { -1.0 } else { 1.0 };
            let ki = seg.rows[i].keys[0].as_f64().unwrap();
            (0..n)
                .filter(|&j| {
                    let d = (seg.rows[j].keys[0].as_f64().unwrap() - ki) * sign;
                    lo.map(|l| d >= l as f64).unwrap_or(true) && hi.map(|h| d <= h as f64).unwrap_or(true)
                })
                .collect()
        }
    };
    Ok(match w {
        WinFn::Sum | WinFn::Min | WinFn::Max | WinFn::Average | WinFn::Count => {
            let vals: Vec<V> = frame_rows.iter().map(|&j| col(j)).collect();
            let g = match w {
                WinFn::Sum => Agg::Sum,
                WinFn::Min => Agg::Min,
                WinFn::Max => Agg::Max,
                WinFn::Average => Agg::Average,
                _ => Agg::Count,
            };
            agg_value(g, &vals, frame_rows.len())?
        }
        WinFn::RowNumber => {
            if !total() && n > 1 {
                return und("row_number under a non-total order");
            }
            V::Int(i as i64 + 1)
        }
        WinFn::Rank | WinFn::RankDense => {
            if !ordered {
                return und("rank without order");
            }
            if seg.rows.iter().any(|r| r.keys.iter().any(|k| k.is_null())) {
                return und("rank with NULL keys");
            }
            let mut rank = 1;
            let mut dense = 1;
            for j in 1..=i {
                if !tie(j - 1, j) {
                    rank = j + 1;
                    dense += 1;
                }
            }
            V::Int(if w == WinFn::Rank { rank as i64 } else { dense as i64 })
        }
        WinFn::Lag | WinFn::Lead => {
            if !total() && n > 1 {
                return und("lag/lead under a non-total order");
            }
            let j = if w == WinFn::Lag { i as i64 - 1 } else { i as i64 + 1 };
            if j < 0 || j >= n as i64 {
                V::Null
            } else {
                col(j as usize)
            }
        }
        WinFn::First | WinFn::Last => {
            if !total() && n > 1 {
                return und("first/last under a non-total order");
            }
            match (w, frame_rows.first(), frame_rows.last()) {
                (WinFn::First, Some(&f), _) => col(f),
                (WinFn::Last, _, Some(&l)) => col(l),
                _ => V::Null,
            }
        }
    })
}
