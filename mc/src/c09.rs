//! C09 — identifiers are referenced verbatim; generated names never capture user names.
//! STR × templates: every identifier string up to a length bound over an alphabet of
//! quoting-relevant characters, every SQL / PRQL reserved word, and the compiler's own generated
//! name patterns, placed as column name, table name, table alias, derived alias and let name in
//! templates that force 0-2 sub-queries. The schema is created in SQLite under exactly that name
//! with distinguishing contents; the compiled query must return what a hand-quoted reference
//! statement returns.

use crate::iso::guard;
use crate::model::{row_cmp, row_eq, V};
use crate::relcheck::{all_dialects, dname, err_text, opts};
use crate::report::{fnv, par_map, Run, Tier};
use prqlc::sql::Dialect;
use rusqlite::Connection;
use serde_json::json;

// (the last two: a combining acute accent — `a` + U+0301 is the un-normalised spelling of `á` — and the KELVIN SIGN,
// whose normalised form is the letter K: a name is a sequence of code points, not of normalised text)
const ALPHA: &[char] = &['a', 'A', '1', '_', ' ', '"', '\'', '.', '$', '-', 'é', '\\', '\u{301}', '\u{212a}'];
const GENERATED: &[&str] = &["table_0", "table_1", "table_2", "table_3", "_expr_0", "_expr_1", "_expr_2", "_expr_3", "table_00", "_expr_", "table_"];
const PRQL_WORDS: &[&str] = &["let", "into", "case", "prql", "type", "module", "internal", "func", "import", "enum", "null", "true", "false", "this", "that", "from", "select", "derive", "filter", "take", "sort", "join", "group", "aggregate", "window", "std", "db", "count", "sum", "min", "max", "average", "rank"];

fn q_prql(n: &str) -> String {
    format!("`{n}`")
}
fn q_sql(n: &str) -> String {
    format!("\"{}\"", n.replace('"', "\"\""))
}

pub struct Template {
    pub name: &'static str,
    pub position: &'static str,
    /// schema + data; `§` is the SQL-quoted name
    pub setup: &'static str,
    /// PRQL; `§` is the backticked name
    pub prql: &'static str,
    /// reference SQL written by hand; `§` is the SQL-quoted name
    pub reference: &'static str,
}

pub const TEMPLATES: &[Template] = &[
    Template { name: "column-select", position: "column", setup: "CREATE TABLE t(k, §); INSERT INTO t VALUES (1, 10), (2, 20), (3, NULL);", prql: "from t | select {§, k}", reference: "SELECT §, k FROM t" },
    Template { name: "column-filter-sort", position: "column", setup: "CREATE TABLE t(k, §); INSERT INTO t VALUES (1, 10), (2, 20), (3, 5);", prql: "from t | filter § > 7 | sort {-§} | select {k}", reference: "SELECT k FROM t WHERE § > 7" },
    Template { name: "column-through-two-splits", position: "column", setup: "CREATE TABLE t(k, §); INSERT INTO t VALUES (1, 10), (2, 20), (3, 5), (4, 30);", prql: "from t | select {k, §} | sort k | take 3 | filter § > 7 | derive {y = § + 1} | sort {-k} | take 1 | select {y, §}", reference: "SELECT § + 1, § FROM t WHERE k = 2" },
    Template { name: "column-aggregate", position: "column", setup: "CREATE TABLE t(k, §); INSERT INTO t VALUES (1, 10), (1, 20), (2, 5);", prql: "from t | group {k} (aggregate {s = sum §}) | sort k", reference: "SELECT k, SUM(§) FROM t GROUP BY k" },
    Template { name: "table-from", position: "table", setup: "CREATE TABLE §(a, b); INSERT INTO § VALUES (1, 2), (3, 4);", prql: "from § | select {a, b}", reference: "SELECT a, b FROM §" },
    Template { name: "table-join", position: "table", setup: "CREATE TABLE t(a, b); INSERT INTO t VALUES (1, 2), (3, 4); CREATE TABLE §(a, d); INSERT INTO § VALUES (1, 7), (3, 8), (5, 9);", prql: "from t | join § (==a) | select {t.b, §.d}", reference: "SELECT t.b, r.d FROM t JOIN § AS r ON t.a = r.a" },
    Template { name: "table-with-split", position: "table", setup: "CREATE TABLE §(a, b); INSERT INTO § VALUES (1, 2), (3, 4), (5, 6);", prql: "from § | select {a, b} | sort a | take 2 | filter b > 2 | select {a}", reference: "SELECT 3" },
    Template { name: "alias-from", position: "alias", setup: "CREATE TABLE t(a, b); INSERT INTO t VALUES (1, 2), (3, 4); CREATE TABLE u(a, d); INSERT INTO u VALUES (1, 7), (3, 8);", prql: "from § = t | join u (==a) | select {§.b, u.d}", reference: "SELECT t.b, u.d FROM t JOIN u ON t.a = u.a" },
    Template { name: "alias-join", position: "alias", setup: "CREATE TABLE t(a, b); INSERT INTO t VALUES (1, 2), (3, 4); CREATE TABLE u(a, d); INSERT INTO u VALUES (1, 7), (3, 8);", prql: "from t | join § = u (==a) | select {t.b, §.d}", reference: "SELECT t.b, u.d FROM t JOIN u ON t.a = u.a" },
    Template { name: "derived-alias", position: "derived", setup: "CREATE TABLE t(a, b); INSERT INTO t VALUES (1, 2), (3, 4);", prql: "from t | derive {§ = a + 10} | select {§, b}", reference: "SELECT a + 10, b FROM t" },
    Template { name: "derived-alias-through-split", position: "derived", setup: "CREATE TABLE t(a, b); INSERT INTO t VALUES (1, 2), (3, 4), (5, 6);", prql: "from t | select {a, b} | derive {§ = a + 10} | sort a | take 2 | filter § > 11 | select {§}", reference: "SELECT 13" },
    Template { name: "let-name", position: "let", setup: "CREATE TABLE t(a, b); INSERT INTO t VALUES (1, 2), (3, 4);", prql: "let § = (from t | select {a, b} | filter a > 1)\nfrom § | select {b}", reference: "SELECT 4" },
    // the name inside the `{…}` of an interpolated string (¶ = the quote character that the name does not contain)
    Template { name: "column-in-f-string", position: "interpolation", setup: "CREATE TABLE t(k, §); INSERT INTO t VALUES (1, 'x'), (2, 'y'), (3, 'z');", prql: "from t | select {k, v = f¶<{§}>¶}", reference: "SELECT k, '<' || § || '>' FROM t" },
    Template { name: "column-in-s-string-filter", position: "interpolation", setup: "CREATE TABLE t(k, §); INSERT INTO t VALUES (1, 10), (2, 20), (3, 5);", prql: "from t | filter s¶{§} > 7¶ | select {k}", reference: "SELECT k FROM t WHERE § > 7" },
    Template { name: "qualified-column-in-s-string", position: "interpolation", setup: "CREATE TABLE t(k, §); INSERT INTO t VALUES (1, 10), (2, 20), (3, 5);", prql: "from t | select {k, v = s¶{t.§} + 1¶}", reference: "SELECT k, § + 1 FROM t" },
    Template { name: "column-in-s-string-through-split", position: "interpolation", setup: "CREATE TABLE t(k, §); INSERT INTO t VALUES (1, 10), (2, 20), (3, 5), (4, 30);", prql: "from t | select {k, §} | sort k | take 3 | filter s¶{§} > 7¶ | select {k, w = f¶{§}-{k}¶}", reference: "SELECT k, § || '-' || k FROM t WHERE k < 4 AND § > 7" },
    Template { name: "table-alias-in-s-string", position: "interpolation", setup: "CREATE TABLE t(k, b); INSERT INTO t VALUES (1, 10), (2, 20), (3, 5);", prql: "from § = t | select {k, v = s¶{§.b} + 1¶}", reference: "SELECT k, b + 1 FROM t" },
    Template { name: "let-name-joined", position: "let", setup: "CREATE TABLE t(a, b); INSERT INTO t VALUES (1, 2), (3, 4); CREATE TABLE u(a, d); INSERT INTO u VALUES (1, 7), (3, 8);", prql: "let § = (from t | select {a, b})\nfrom u | join § (==a) | select {u.d, §.b}", reference: "SELECT u.d, t.b FROM u JOIN t ON t.a = u.a" },
];

/// capture templates: a *user* object carries a name the compiler would generate in the same query
pub const CAPTURE: &[Template] = &[
    // the taken prefix becomes CTE table_0; the user's table_0 is joined in the same statement
    Template { name: "user-table-named-like-cte", position: "table", setup: "CREATE TABLE t(a, b); INSERT INTO t VALUES (1, 2), (3, 4), (5, 6); CREATE TABLE §(a, d); INSERT INTO § VALUES (1, 70), (3, 80), (9, 90);", prql: "from t | select {a, b} | sort a | take 2 | join § (==a) | select {b, §.d}", reference: "SELECT 2, 70 UNION ALL SELECT 4, 80" },
    Template { name: "user-table-named-like-cte-two-splits", position: "table", setup: "CREATE TABLE t(a, b); INSERT INTO t VALUES (1, 2), (3, 4), (5, 6); CREATE TABLE §(a, d); INSERT INTO § VALUES (1, 70), (3, 80), (9, 90);", prql: "from § | select {a, d} | sort a | take 2 | filter d > 70 | sort {-a} | take 1 | join t (==a) | select {d, t.b}", reference: "SELECT 80, 4" },
    Template { name: "user-let-named-like-cte", position: "let", setup: "CREATE TABLE t(a, b); INSERT INTO t VALUES (1, 2), (3, 4), (5, 6);", prql: "let § = (from t | select {a, b} | filter a > 1)\nfrom t | select {a, b} | sort a | take 2 | join § (==a) | select {t.b, §.b}", reference: "SELECT 4, 4" },
    // a user column named like the helper of a computed sort key / row number
    Template { name: "user-column-named-like-helper-sort", position: "column", setup: "CREATE TABLE t(a, §); INSERT INTO t VALUES (1, 50), (3, 10), (5, 30);", prql: "from t | select {a, §} | sort {a + §} | take 2 | select {§}", reference: "SELECT 10 UNION ALL SELECT 30" },
    Template { name: "user-column-named-like-helper-rownum", position: "column", setup: "CREATE TABLE t(a, §); INSERT INTO t VALUES (1, 50), (1, 10), (5, 30);", prql: "from t | select {a, §} | group {a} (sort {§} | take 1) | sort a | select {§}", reference: "SELECT 10 UNION ALL SELECT 30" },
    // two user objects carrying *consecutive* generated names (¤ = the name the generator would try next)
    Template { name: "two-user-tables-named-like-consecutive-ctes", position: "table", setup: "CREATE TABLE §(a, b); INSERT INTO § VALUES (1, 2), (2, 3), (3, 4); CREATE TABLE ¤(a, d); INSERT INTO ¤ VALUES (2, 70), (9, 90);", prql: "from § | sort a | take 3 | filter a > 1 | join side:left ¤ (==a) | select {§.a, m = ¤.d}", reference: "SELECT 2, 70 UNION ALL SELECT 3, NULL" },
    Template { name: "two-user-tables-named-like-consecutive-ctes-swapped", position: "table", setup: "CREATE TABLE ¤(a, b); INSERT INTO ¤ VALUES (1, 2), (2, 3), (3, 4); CREATE TABLE §(a, d); INSERT INTO § VALUES (2, 70), (9, 90);", prql: "from ¤ | sort a | take 3 | filter a > 1 | join side:left § (==a) | select {¤.a, m = §.d}", reference: "SELECT 2, 70 UNION ALL SELECT 3, NULL" },
    Template { name: "two-user-columns-named-like-consecutive-helpers", position: "column", setup: "CREATE TABLE t(a, §, ¤); INSERT INTO t VALUES (1, 50, 5), (3, 10, 7), (5, 30, 1);", prql: "from t | select {a, §, ¤} | sort {a + §} | take 2 | sort {a + ¤} | take 1 | select {§, ¤}", reference: "SELECT 30, 1" },
    // a relation that needs an invented alias (second join of the same table) next to a user table of that name
    Template { name: "user-table-named-like-invented-alias", position: "table", setup: "CREATE TABLE §(a, b); INSERT INTO § VALUES (1, 2), (3, 4); CREATE TABLE t(a, b); INSERT INTO t VALUES (1, 2), (3, 9);", prql: "from § | join t (§.a == t.a) | join t (§.b == that.b) | select {§.a, §.b}", reference: "SELECT 1, 2" },
    Template { name: "user-table-named-like-invented-alias-joined-last", position: "table", setup: "CREATE TABLE §(a, b); INSERT INTO § VALUES (1, 2), (3, 4); CREATE TABLE t(a, b); INSERT INTO t VALUES (1, 2), (3, 9);", prql: "from t | join t (this.a == that.a) | join § (this.b == that.b) | select {§.a, §.b}", reference: "SELECT 1, 2" },
    // a helper name is handed to one of two same-named columns at a split, next to a user column of that name
    Template { name: "user-column-after-renamed-duplicate", position: "column", setup: "CREATE TABLE t(a, b); INSERT INTO t VALUES (1, 2), (3, 4), (5, 6); CREATE TABLE u(a, §); INSERT INTO u VALUES (1, 0), (3, 9), (5, 1);", prql: "from t | join u (==a) | select {t.a, u.a, u.§} | take 5 | filter § > 0", reference: "SELECT 3, 3, 9 UNION ALL SELECT 5, 5, 1" },
    Template { name: "user-column-before-renamed-duplicate", position: "column", setup: "CREATE TABLE t(a, b); INSERT INTO t VALUES (1, 2), (3, 4), (5, 6); CREATE TABLE u(a, §); INSERT INTO u VALUES (1, 0), (3, 9), (5, 1);", prql: "from t | join u (==a) | select {u.§, t.a, u.a} | take 5 | filter § > 0", reference: "SELECT 9, 3, 3 UNION ALL SELECT 1, 5, 5" },
    Template { name: "user-alias-named-like-helper", position: "derived", setup: "CREATE TABLE t(a, b); INSERT INTO t VALUES (1, 50), (3, 10), (5, 30);", prql: "from t | select {a, b} | derive {§ = b + 1} | sort {a + b} | take 2 | filter § > 11 | select {§, a}", reference: "SELECT 31, 5" },
];

fn names(tier: Tier) -> Vec<String> {
    let mut v: Vec<String> = vec![];
    let maxlen = tier.pick(2, 3);
    for len in 1..=maxlen {
        for mut i in 0..(ALPHA.len() as u64).pow(len as u32) {
            let mut s = String::new();
            for _ in 0..len {
                s.push(ALPHA[(i % ALPHA.len() as u64) as usize]);
                i /= ALPHA.len() as u64;
            }
            v.push(s);
        }
    }
    for k in sqlparser::keywords::ALL_KEYWORDS {
        v.push(k.to_lowercase());
        if tier == Tier::Thorough {
            v.push(k.to_string());
        }
    }
    v.extend(PRQL_WORDS.iter().map(|s| s.to_string()));
    v.extend(GENERATED.iter().map(|s| s.to_string()));
    v.extend(["sqlite_master", "rowid", "oid", "Mixed Case", "naïve", "日本", "a b.c", "x-y", "$1", "1st", "__", "select from where"].iter().map(|s| s.to_string()));
    let mut seen = std::collections::HashSet::new();
    // names the templates themselves use for other objects would only collide with the template
    const TEMPLATE_NAMES: &[&str] = &["a", "b", "d", "k", "t", "u", "s", "y", "r"];
    v.retain(|s| !s.contains('`') && !s.trim().is_empty() && !TEMPLATE_NAMES.contains(&s.as_str()) && seen.insert(s.clone()));
    v
}

/// names declared by the standard library (read from the repository's std.prql)
fn std_names() -> std::collections::HashSet<String> {
    let mut out = std::collections::HashSet::new();
    if let Ok(t) = std::fs::read_to_string(format!("{}/prqlc/prqlc/src/semantic/std.prql", crate::report::repo_root())) {
        for l in t.lines() {
            let l = l.trim_start();
            for kw in ["let ", "module ", "type "] {
                if let Some(r) = l.strip_prefix(kw) {
                    let n: String = r.chars().take_while(|c| c.is_alphanumeric() || *c == '_').collect();
                    if !n.is_empty() {
                        out.insert(n);
                    }
                }
            }
        }
    }
    out
}

#[derive(Debug)]
pub struct Bad {
    pub key: String,
    pub why: String,
}

fn run_query(conn: &Connection, sql: &str) -> Result<Vec<Vec<V>>, String> {
    let mut st = conn.prepare(sql).map_err(|e| e.to_string())?;
    let n = st.column_count();
    let mut rows = st.query([]).map_err(|e| e.to_string())?;
    let mut out = vec![];
    while let Some(r) = rows.next().map_err(|e| e.to_string())? {
        let mut v = vec![];
        for i in 0..n {
            v.push(match r.get_ref(i).map_err(|e| e.to_string())? {
                rusqlite::types::ValueRef::Null => V::Null,
                rusqlite::types::ValueRef::Integer(i) => V::Int(i),
                rusqlite::types::ValueRef::Real(f) => V::Real(f),
                rusqlite::types::ValueRef::Text(t) => V::Text(String::from_utf8_lossy(t).into_owned()),
                rusqlite::types::ValueRef::Blob(_) => V::Text("<blob>".into()),
            });
        }
        out.push(v);
    }
    Ok(out)
}

pub fn check_case(t: &Template, name: &str, d: Dialect) -> Option<Bad> {
    let conn = Connection::open_in_memory().ok()?;
    // SQLite resolves a double-quoted "true"/"false" coming out of a sub-query as a string: an engine
    // quirk, not a verdict about the compiler
    if name.eq_ignore_ascii_case("true") || name.eq_ignore_ascii_case("false") {
        return None;
    }
    // ¤: the name the compiler's generator would try after `name` (`table_1` for `table_0`), else a plain companion
    let next = {
        let digits: String = name.chars().rev().take_while(|c| c.is_ascii_digit()).collect::<String>().chars().rev().collect();
        let stem = &name[..name.len() - digits.len()];
        match digits.parse::<u64>() {
            Ok(n) if (stem == "table_" || stem == "_expr_") && !(digits.len() > 1 && digits.starts_with('0')) => format!("{stem}{}", n + 1),
            _ => format!("{name}_2"),
        }
    };
    let setup = t.setup.replace('§', &q_sql(name)).replace('¤', &q_sql(&next));
    if conn.execute_batch(&setup).is_err() {
        // the engine itself cannot hold an object of this name (e.g. reserved `sqlite_` prefix)
        return None;
    }
    // ¶: the quote character delimiting an interpolated string — one the name does not contain
    let quote = match (name.contains('"'), name.contains('\'')) {
        (false, _) => "\"",
        (true, false) => "'",
        (true, true) if t.prql.contains('¶') => return None,
        _ => "\"",
    };
    // inside the quotes of an interpolated string a backslash of the name is written `\\\\` (escapes of the string
    // are decoded before its `{…}` holes are read)
    let src = t
        .prql
        .split('¶')
        .enumerate()
        .map(|(i, seg)| {
            let dbl = |n: &str| if i % 2 == 1 { n.replace('\\', "\\\\") } else { n.to_string() };
            seg.replace('§', &dbl(&q_prql(name))).replace('¤', &dbl(&q_prql(&next)))
        })
        .collect::<Vec<_>>()
        .join(quote);
    let sql = match guard(|| prqlc::compile(&src, &opts(d))) {
        Err(p) => return Some(Bad { key: crate::c12::panic_key(&p), why: format!("{src}: panic at {}: {}", p.site, p.msg) }),
        Ok(Err(e)) => return Some(Bad { key: format!("identifier-rejected:{}", t.position), why: format!("{src}: {}", err_text(&e)) }),
        Ok(Ok(s)) => s,
    };
    let want = match run_query(&conn, &t.reference.replace('§', &q_sql(name)).replace('¤', &q_sql(&next))) {
        Ok(r) => r,
        Err(_) => return None,
    };
    match run_query(&conn, &sql) {
        Err(e) => Some(Bad { key: format!("statement-rejected:{}:{}", t.position, dname(d)), why: format!("{src} → {sql}: {e}") }),
        Ok(got) => {
            let (mut a, mut b) = (want.clone(), got.clone());
            a.sort_by(|x, y| row_cmp(x, y));
            b.sort_by(|x, y| row_cmp(x, y));
            if a.len() == b.len() && a.iter().zip(&b).all(|(x, y)| row_eq(x, y)) {
                None
            } else {
                Some(Bad { key: format!("wrong-object-referenced:{}:{}", t.position, dname(d)), why: format!("{src} → {sql} returns {:?}, the object of that name holds {:?}", crate::relcheck::show_rows(&got), crate::relcheck::show_rows(&want)) })
            }
        }
    }
}

fn sqlparser_dialect(d: Dialect) -> Box<dyn sqlparser::dialect::Dialect> {
    use sqlparser::dialect as sd;
    match d {
        Dialect::Ansi => Box::new(sd::AnsiDialect {}),
        Dialect::BigQuery => Box::new(sd::BigQueryDialect {}),
        Dialect::ClickHouse => Box::new(sd::ClickHouseDialect {}),
        Dialect::DuckDb => Box::new(sd::DuckDbDialect {}),
        Dialect::Generic => Box::new(sd::GenericDialect {}),
        Dialect::GlareDb | Dialect::Postgres => Box::new(sd::PostgreSqlDialect {}),
        Dialect::MsSql => Box::new(sd::MsSqlDialect {}),
        Dialect::MySql => Box::new(sd::MySqlDialect {}),
        Dialect::Redshift => Box::new(sd::RedshiftSqlDialect {}),
        Dialect::SQLite => Box::new(sd::SQLiteDialect {}),
        Dialect::Snowflake => Box::new(sd::SnowflakeDialect {}),
    }
}

/// non-executable dialects: the identifier must appear as ONE identifier token with exactly that
/// value, quoted whenever it is not a plain lower-case word
fn check_tokens(name: &str, d: Dialect) -> Option<Bad> {
    use sqlparser::tokenizer::{Token, Tokenizer};
    // `$` inside unquoted identifiers is modelled differently by sqlparser's tokenizers than by the engines
    if name.contains('$') {
        return None;
    }
    let src = format!("from t | select {{{}, k}}", q_prql(name));
    let sql = match guard(|| prqlc::compile(&src, &opts(d))) {
        Ok(Ok(s)) => s,
        _ => return None,
    };
    let dial = sqlparser_dialect(d);
    let toks = match Tokenizer::new(&*dial, &sql).tokenize() {
        Ok(t) => t,
        Err(e) => return Some(Bad { key: format!("statement-does-not-tokenise:{}", dname(d)), why: format!("{src} → {sql}: {e}") }),
    };
    let plain = name.chars().all(|c| c.is_ascii_lowercase() || c.is_ascii_digit() || c == '_') && !name.chars().next().unwrap().is_ascii_digit();
    let found = toks.iter().any(|t| match t {
        Token::Word(w) => w.value == name && (plain || w.quote_style.is_some()),
        _ => false,
    });
    let shape_ok = {
        let kinds: Vec<String> = toks.iter().filter(|t| !matches!(t, Token::Whitespace(_))).map(|t| match t { Token::Word(w) if w.quote_style.is_none() => w.value.to_uppercase(), Token::Word(_) => "ID".into(), o => o.to_string() }).collect();
        // SELECT <id> [AS <id>] , k FROM t
        kinds.first().map(|k| k == "SELECT").unwrap_or(false) && kinds.iter().filter(|k| *k == "FROM").count() == 1 && (kinds.len() == 6 || (kinds.len() == 8 && kinds[2] == "AS"))
    };
    if !found || !shape_ok {
        Some(Bad { key: format!("identifier-not-one-verbatim-token:{}", dname(d)), why: format!("{src} → {sql}") })
    } else {
        None
    }
}

pub fn run(tier: Tier) -> i32 {
    let mut run = Run::new("C09", tier);
    let names = names(tier);
    // (template, name, dialect, is_capture)
    let mut jobs: Vec<(usize, bool, String, Dialect)> = vec![];
    for n in &names {
        for (i, _) in TEMPLATES.iter().enumerate() {
            for d in [Dialect::SQLite, Dialect::Generic] {
                jobs.push((i, false, n.clone(), d));
            }
        }
    }
    for n in GENERATED {
        for (i, _) in CAPTURE.iter().enumerate() {
            for d in [Dialect::SQLite, Dialect::Generic] {
                jobs.push((i, true, n.to_string(), d));
            }
        }
    }
    let outs = par_map(&jobs, || (), |_, (i, cap, n, d)| check_case(if *cap { &CAPTURE[*i] } else { &TEMPLATES[*i] }, n, *d));
    for ((i, cap, n, d), o) in jobs.iter().zip(outs) {
        run.validated += 1;
        let t = if *cap { &CAPTURE[*i] } else { &TEMPLATES[*i] };
        run.count(&format!("position:{}", t.position), 1);
        match o {
            None => run.observe(fnv(&format!("{}{}", t.name, n.len()))),
            Some(b) => run.violate(Some(cause(&b, t, n)), format!("[{} / {}] name {:?}: {}", t.name, dname(*d), n, b.why), json!({"driver":"STR×template","template": t.name, "name": n, "dialect": dname(*d), "detail": b.why})),
        }
    }
    // the other dialects: token-level check
    let others: Vec<Dialect> = all_dialects().into_iter().filter(|d| !matches!(d, Dialect::SQLite | Dialect::Generic)).collect();
    let tjobs: Vec<(String, Dialect)> = names.iter().flat_map(|n| others.iter().map(move |d| (n.clone(), *d))).collect();
    let outs = par_map(&tjobs, || (), |_, (n, d)| check_tokens(n, *d));
    for ((n, d), o) in tjobs.iter().zip(outs) {
        run.validated += 1;
        if let Some(b) = o {
            let key = if n == "this" || n == "that" {
                "this-that-in-backticks-denote-the-relation".to_string()
            } else if *d == Dialect::Ansi && n.starts_with('_') && b.key.starts_with("identifier-not-one-verbatim-token") {
                "identifier-starting-with-underscore-unquoted:ansi".to_string()
            } else {
                b.key.clone()
            };
            run.violate(Some(key), format!("[{}] name {:?}: {}", dname(*d), n, b.why), json!({"driver":"STR-tokens","name": n, "dialect": dname(*d), "detail": b.why}));
        }
    }
    run.states = names.len() as u64;
    run.transitions = (jobs.len() + tjobs.len()) as u64;
    run.set("bounds", json!({"alphabet": ALPHA.iter().collect::<String>(), "max_len": tier.pick(2, 3), "sql_keywords": sqlparser::keywords::ALL_KEYWORDS.len(), "prql_words": PRQL_WORDS.len(), "generated_patterns": GENERATED, "templates": TEMPLATES.iter().map(|t| t.name).collect::<Vec<_>>(), "capture_templates": CAPTURE.iter().map(|t| t.name).collect::<Vec<_>>(), "executed": ["sqlite","generic"], "tokenised_dialects": 10}));
    run.set("rule", json!("state = identifier string; transition = (identifier, template, dialect); the schema is created under exactly that name; compiled SQL must return what the hand-quoted reference returns; for the 10 other dialects the identifier must be one identifier token with that value (quoted unless a plain lower-case word)"));
    run.assume("identifiers the engine itself refuses as object names (e.g. the sqlite_ prefix) are skipped");
    run.finish()
}

/// cause predicates of known findings
fn cause(b: &Bad, _t: &Template, name: &str) -> String {
    use std::sync::OnceLock;
    static STD: OnceLock<std::collections::HashSet<String>> = OnceLock::new();
    let std_names = STD.get_or_init(std_names);
    if name == "this" || name == "that" {
        return "this-that-in-backticks-denote-the-relation".into();
    }
    // root-level declarations of every program (modules std/db/main, the query header `prql`, built-in types)
    const ROOT: &[&str] = &["std", "main", "prql", "func", "source", "db", "default_db", "_local", "_param", "_infer", "_generic", "_self", "_literals"];
    if (b.key.starts_with("identifier-rejected") || b.key.starts_with("statement-rejected") || b.key.starts_with("wrong-object")) && (std_names.contains(name) || ROOT.contains(&name)) {
        return "std-name-shadows-user-object".into();
    }
    b.key.clone()
}

pub fn replay(v: &serde_json::Value) -> i32 {
    let tn = v["template"].as_str().unwrap_or("");
    let name = v["name"].as_str().unwrap_or("");
    let t = TEMPLATES.iter().chain(CAPTURE.iter()).find(|t| t.name == tn);
    let d = if v["dialect"] == "generic" { Dialect::Generic } else { Dialect::SQLite };
    match t.and_then(|t| check_case(t, name, d)) {
        None => {
            println!("OK");
            0
        }
        Some(b) => {
            println!("FAIL [{}] {}", b.key, b.why);
            1
        }
    }
}
