//! Shared runner for the AP-driven relational checks (C01, C03, C05): enumerate programs with the
//! engine, replay every one on the implementation (compile + SQLite) against the reference model.

use crate::apgen::{gen_program, GenCfg};
use crate::engine;
use crate::inst;
use crate::model::*;
use crate::relcheck::{check_program, Finding, Kind, Outcome};
use crate::report::{par_map, Run, Tier};
use crate::sqlite::Db;
use serde_json::json;

pub struct RelSpec {
    pub property: &'static str,
    pub cfgs: Vec<GenCfg>,
    /// programs of at most this many steps are also run on the exhaustive instance space
    pub exh_depth: usize,
    pub exh_size: (usize, usize),
    /// which finding kinds this property decides
    pub decides: Vec<Kind>,
    /// cause predicates: (finding, program) -> key
    pub keyfn: fn(&Finding, &Program, &Outcome) -> Option<String>,
    /// a further part of the same check, run before the evidence is written
    pub extra: Option<fn(&mut Run, Tier)>,
}

pub fn enumerate(cfgs: &[GenCfg]) -> (Vec<(Program, Vec<usize>, usize)>, engine::Stats) {
    let mut progs = vec![];
    let mut total = engine::Stats::default();
    for (ci, cfg) in cfgs.iter().enumerate() {
        let (cases, st) = engine::collect(0, |c| gen_program(c, cfg));
        total.executions += st.executions;
        total.points += st.points;
        total.pruned += st.pruned;
        total.max_depth = total.max_depth.max(st.max_depth);
        for (p, ch) in cases {
            progs.push((p, ch, ci));
        }
    }
    // the same program can be reached through different cfgs: keep the first
    let mut seen = std::collections::HashSet::new();
    progs.retain(|(p, _, _)| seen.insert(pr_program(p)));
    (progs, total)
}

pub fn run(spec: RelSpec, tier: Tier) -> i32 {
    let mut run = Run::new(spec.property, tier);
    let (progs, st) = enumerate(&spec.cfgs);
    let pool = inst::pool();
    let exh = inst::exhaustive(spec.exh_size.0, spec.exh_size.1);
    let outcomes: Vec<Outcome> = par_map(
        &progs,
        Db::new,
        |db, (p, _, _)| {
            let mut o = check_program(db, p, &pool);
            let steps = p.main.as_ref().map(|m| m.steps.len()).unwrap_or(0);
            if steps <= spec.exh_depth && o.findings.is_empty() {
                let o2 = check_program(db, p, &exh);
                o.decided += o2.decided;
                o.ordered_checked += o2.ordered_checked;
                for (k, v) in o2.undecided {
                    *o.undecided.entry(k).or_insert(0) += v;
                }
                o.findings.extend(o2.findings);
                o.outcome_hash ^= o2.outcome_hash.rotate_left(17);
            }
            o
        },
    );
    let mut split_hist = std::collections::BTreeMap::new();
    for ((p, ch, ci), o) in progs.iter().zip(&outcomes) {
        run.validated += o.decided;
        run.count("programs", 1);
        run.count("instance_runs_decided", o.decided);
        run.count("ordered_results_checked", o.ordered_checked);
        for (k, v) in &o.undecided {
            run.count(&format!("undecided: {k}"), *v);
        }
        *split_hist.entry(o.selects.min(4)).or_insert(0u64) += 1;
        run.observe(o.outcome_hash ^ crate::report::fnv(&o.sqls.first().map(|s| s.1.clone()).unwrap_or_default()));
        if o.findings.is_empty() && run.samples.len() < 6 && o.selects >= 2 {
            run.sample(json!({"prql": o.text, "sql_sqlite": o.sqls.first().map(|s| &s.1), "instances_decided": o.decided}));
        }
        for f in &o.findings {
            run.count(&format!("finding_kind:{:?}", f.kind), 1);
            if !spec.decides.contains(&f.kind) {
                if matches!(f.kind, Kind::CompileReject | Kind::Panic) {
                    let norm: String = {
                        let mut out = String::new();
                        let mut in_tick = false;
                        for ch in f.msg.chars() {
                            if ch == '`' { in_tick = !in_tick; out.push('`'); continue; }
                            if !in_tick { out.push(ch); }
                        }
                        out.chars().take(100).collect()
                    };
                    run.count(&format!("not_compiled: {norm}"), 1);
                    if std::env::var("MC_DUMP").is_ok() { eprintln!("NOTCOMPILED\t{}\t{}", norm, o.text.trim().replace('\n', " | ")); }
                }
                continue;
            }
            let key = (spec.keyfn)(f, p, o);
            run.violate(
                key,
                format!("[{:?}/{}] {} :: {}", f.kind, f.dialect, o.text.trim().replace('\n', " | "), f.msg),
                json!({
                    "driver": "AP", "cfg": ci, "choices": ch, "prql": o.text, "dialect": f.dialect,
                    "kind": format!("{:?}", f.kind), "instance": f.inst.as_ref().map(|i| i.show()),
                    "sql": f.sql, "expected": f.expected, "got": f.got, "msg": f.msg,
                }),
            );
        }
    }
    run.states = progs.len() as u64;
    run.transitions = st.points;
    if let Some(extra) = spec.extra {
        extra(&mut run, tier);
    }
    run.set("split_coverage_selects_per_statement", json!(split_hist));
    run.set(
        "bounds",
        json!({
            "configs": spec.cfgs.iter().map(|c| format!("{c:?}")).collect::<Vec<_>>(),
            "pool_instances": pool.iter().map(|i| format!("{}: {}", i.name, i.show())).collect::<Vec<_>>(),
            "exhaustive_instances": exh.len(), "exhaustive_for_programs_up_to_steps": spec.exh_depth,
            "exhaustive_space": format!("|t|<={} |u|<={} over {{NULL,1,2}}", spec.exh_size.0, spec.exh_size.1),
            "targets": ["sql.sqlite", "sql.generic"],
            "engine_executions": st.executions, "pruned": st.pruned,
        }),
    );
    run.set("rule", json!("states = distinct abstract programs enumerated; transitions = choice points; validated = (program, instance, target) triples compiled by prqlc, executed on SQLite and compared with the reference interpreter; distinct outcome = distinct (SQL text, result sets)"));
    run.assume("SQLite 3.49 (bundled) is trusted to evaluate SQL; sql.generic output is executed on the same engine");
    run.assume("undocumented behaviour (NULL placement in sorts, ties at take boundaries, take without order) is counted as undecided, not compared");
    run.finish()
}
