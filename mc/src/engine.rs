//! The choice-sequence explorer: stateless, deviation-bounded depth-first enumeration of
//! every execution of a deterministic `body` that asks a `Ctx` for its decisions.
//!
//! * `choose(n, label)`   – `n` equal alternatives (next transform, next character): costs nothing.
//! * `deviate(n, label)`  – alternative 0 is the default answer of the environment; any other
//!                          alternative costs one *deviation* (hash order ≠ baseline, preemption…).
//!
//! Replaying a prefix and meeting a different `(label, arity)` is a machinery error
//! ("the harness does not own a choice"), never a verdict.

#[derive(Clone, Debug, PartialEq, Eq)]
pub struct Point {
    pub choice: usize,
    pub arity: usize,
    pub label: &'static str,
    pub dev: bool,
}

pub struct Ctx {
    prefix: Vec<Point>,
    pub trace: Vec<Point>,
    devs_used: usize,
    max_devs: usize,
    /// set when the replayed prefix disagrees with what the body asks
    pub diverged: Option<String>,
}

impl Ctx {
    pub fn new(prefix: Vec<Point>, max_devs: usize) -> Self {
        Ctx { prefix, trace: Vec::new(), devs_used: 0, max_devs, diverged: None }
    }

    /// A context that replays bare choice numbers (from a replay file); arity is checked only
    /// as "choice < arity".
    pub fn from_choices(choices: &[usize]) -> Self {
        let prefix = choices
            .iter()
            .map(|&c| Point { choice: c, arity: usize::MAX, label: "*", dev: false })
            .collect();
        Ctx::new(prefix, usize::MAX / 2)
    }

    fn next(&mut self, n: usize, label: &'static str, dev: bool) -> usize {
        assert!(n > 0, "choice point {label} with no alternatives");
        let i = self.trace.len();
        let c = if i < self.prefix.len() {
            let p = &self.prefix[i];
            let wildcard = p.label == "*";
            if (!wildcard && (p.arity != n || p.label != label || p.dev != dev)) || p.choice >= n {
                if self.diverged.is_none() {
                    self.diverged = Some(format!(
                        "replay divergence at point {i}: recorded ({},{},choice {}) met ({label},{n})",
                        p.label, p.arity, p.choice
                    ));
                }
                0
            } else {
                p.choice
            }
        } else {
            0
        };
        if dev && c != 0 {
            self.devs_used += 1;
        }
        self.trace.push(Point { choice: c, arity: n, label, dev });
        c
    }

    pub fn choose(&mut self, n: usize, label: &'static str) -> usize {
        self.next(n, label, false)
    }

    /// Pick one element of a slice.
    pub fn pick<'a, T>(&mut self, xs: &'a [T], label: &'static str) -> &'a T {
        &xs[self.choose(xs.len(), label)]
    }

    pub fn flag(&mut self, label: &'static str) -> bool {
        self.choose(2, label) == 1
    }

    /// A point whose non-default alternatives are deviations. When the budget is used up the
    /// explorer never schedules a non-default alternative here.
    pub fn deviate(&mut self, n: usize, label: &'static str) -> usize {
        self.next(n, label, true)
    }

    pub fn devs_used(&self) -> usize {
        self.devs_used
    }

    pub fn devs_left(&self) -> usize {
        self.max_devs.saturating_sub(self.devs_used)
    }

    pub fn choices(&self) -> Vec<usize> {
        self.trace.iter().map(|p| p.choice).collect()
    }
}

#[derive(Default, Debug, Clone)]
pub struct Stats {
    pub executions: u64,
    pub pruned: u64,
    pub points: u64,
    pub max_depth: usize,
    pub cap_hit: bool,
}

/// Enumerate every execution of `body` with at most `max_devs` deviations.
/// `body` returns `Some(obs)` for a complete execution or `None` to prune (ill-formed case).
/// `sink` receives every complete observation together with the trace.
pub fn explore<T>(
    max_devs: usize,
    max_execs: Option<u64>,
    mut body: impl FnMut(&mut Ctx) -> Option<T>,
    mut sink: impl FnMut(T, &[Point]),
) -> Stats {
    let mut st = Stats::default();
    let mut prefix: Vec<Point> = Vec::new();
    loop {
        let mut ctx = Ctx::new(prefix, max_devs);
        let r = body(&mut ctx);
        if let Some(d) = &ctx.diverged {
            eprintln!("MACHINERY ERROR: {d}");
            std::process::exit(2);
        }
        st.executions += 1;
        st.points += ctx.trace.len() as u64;
        st.max_depth = st.max_depth.max(ctx.trace.len());
        match r {
            Some(v) => sink(v, &ctx.trace),
            None => st.pruned += 1,
        }
        if let Some(cap) = max_execs {
            if st.executions >= cap {
                st.cap_hit = true;
                return st;
            }
        }
        // backtrack: find the deepest point that still has an untried, affordable alternative
        let mut tr = ctx.trace;
        loop {
            let Some(last) = tr.last().cloned() else {
                return st;
            };
            let depth = tr.len() - 1;
            let devs_before: usize = tr[..depth].iter().filter(|p| p.dev && p.choice != 0).count();
            let next = last.choice + 1;
            let affordable = !last.dev || devs_before + 1 <= max_devs;
            if next < last.arity && affordable {
                tr[depth].choice = next;
                break;
            }
            tr.pop();
        }
        prefix = tr;
    }
}

/// Enumerate every execution whose trace starts with `root` (the points of `root` are fixed, including the
/// last one), with at most `max_devs` deviations in total. Used to shard an exploration by its first deviation.
pub fn explore_below(
    max_devs: usize,
    root: Vec<Point>,
    max_execs: Option<u64>,
    mut body: impl FnMut(&mut Ctx) -> Option<()>,
) -> Stats {
    let mut st = Stats::default();
    let root_len = root.len();
    let mut prefix = root;
    loop {
        let mut ctx = Ctx::new(prefix, max_devs);
        let r = body(&mut ctx);
        if let Some(d) = &ctx.diverged {
            eprintln!("MACHINERY ERROR: {d}");
            std::process::exit(2);
        }
        st.executions += 1;
        st.points += ctx.trace.len() as u64;
        st.max_depth = st.max_depth.max(ctx.trace.len());
        if r.is_none() {
            st.pruned += 1;
        }
        if let Some(cap) = max_execs {
            if st.executions >= cap {
                st.cap_hit = true;
                return st;
            }
        }
        let mut tr = ctx.trace;
        loop {
            if tr.len() <= root_len {
                return st;
            }
            let last = tr.last().cloned().unwrap();
            let depth = tr.len() - 1;
            let devs_before: usize = tr[..depth].iter().filter(|p| p.dev && p.choice != 0).count();
            let next = last.choice + 1;
            let affordable = !last.dev || devs_before + 1 <= max_devs;
            if next < last.arity && affordable {
                tr[depth].choice = next;
                break;
            }
            tr.pop();
        }
        prefix = tr;
    }
}

/// Enumerate and collect every case with its choice sequence.
pub fn collect<T>(
    max_devs: usize,
    body: impl FnMut(&mut Ctx) -> Option<T>,
) -> (Vec<(T, Vec<usize>)>, Stats) {
    let mut out = Vec::new();
    let st = explore(max_devs, None, body, |v, tr| {
        out.push((v, tr.iter().map(|p| p.choice).collect()))
    });
    (out, st)
}

/// Replay one recorded choice sequence (no exploration). Divergence is a machinery error.
pub fn replay<T>(choices: &[usize], mut body: impl FnMut(&mut Ctx) -> Option<T>) -> Option<T> {
    let mut ctx = Ctx::from_choices(choices);
    let r = body(&mut ctx);
    if let Some(d) = &ctx.diverged {
        eprintln!("MACHINERY ERROR: {d}");
        std::process::exit(2);
    }
    r
}

#[cfg(test)]
mod tests {
    use super::*;

    #[test]
    fn enumerates_product() {
        let (v, st) = collect(0, |c| {
            let a = c.choose(3, "a");
            let b = if a == 1 { c.choose(2, "b") } else { 0 };
            Some((a, b))
        });
        assert_eq!(v.len(), 4);
        assert_eq!(st.executions, 4);
    }

    #[test]
    fn deviation_bound() {
        // 3 binary deviation points: with bound 1 → 1 + 3 executions, bound 2 → 1+3+3
        for (d, n) in [(0, 1), (1, 4), (2, 7), (3, 8)] {
            let (v, _) = collect(d, |c| Some((c.deviate(2, "x"), c.deviate(2, "y"), c.deviate(2, "z"))));
            assert_eq!(v.len(), n);
        }
    }
}
