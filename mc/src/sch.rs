//! SCH — schedule driver over seam S (`prqlc::verif_sync`).
//!
//! Real OS threads run the real public entry points; every scheduling point of the seam (lock
//! acquisition of the debug log, first initialisation of a lazily built static, explicit points at
//! stage boundaries and name generation) hands the baton to this scheduler, which asks the
//! choice-sequence explorer which enabled thread proceeds. Continuing the running thread is the
//! default answer; switching away from a thread that could have continued is one *deviation*
//! (a preemption); picking a successor for a finished or blocked thread is free.
//! A thread that fails to get a lock / finds an initialisation in progress is *disabled* until some
//! other thread has made a step; "no enabled thread" and "only failing acquisitions" are deadlock.

#![cfg(prqlc_verif)]

use crate::engine::Ctx;
use prqlc::verif_sync::{self, Event, Kind};
use std::cell::Cell;
use std::sync::{Arc, Condvar, Mutex};

thread_local! {
    static TID: Cell<Option<usize>> = const { Cell::new(None) };
}

#[derive(Clone, Copy, PartialEq, Debug)]
enum St {
    Runnable,
    Blocked { since: u64 },
    Finished,
}

pub const HORIZON: usize = 20_000;

struct Inner {
    ctx: Ctx,
    current: Option<usize>,
    st: Vec<St>,
    progress: u64,
    consecutive_blocked: usize,
    pending_acquire: Vec<bool>,
    steps: usize,
    /// (step, from, to, label of the point at which the switch happened, preemption?)
    switches: Vec<(usize, usize, usize, &'static str, bool)>,
    /// labels of the points met, for coverage
    labels: std::collections::BTreeMap<&'static str, u64>,
    abort: Option<String>,
    done: bool,
}

pub struct Sched {
    m: Mutex<Inner>,
    cv: Condvar,
    n: usize,
    /// fine granularity: the explicit points at id generation are scheduling points too
    fine: bool,
}

pub struct Outcome {
    /// per thread: Ok(observation) or Err(panic text)
    pub results: Vec<Result<Vec<String>, String>>,
    pub abort: Option<String>,
    pub steps: usize,
    pub switches: Vec<(usize, usize, usize, &'static str, bool)>,
    pub labels: std::collections::BTreeMap<&'static str, u64>,
}

impl Sched {
    fn enabled(&self, g: &Inner, me: usize) -> Vec<usize> {
        let ok = |i: usize| match g.st[i] {
            St::Runnable => true,
            St::Blocked { since } => since < g.progress,
            St::Finished => false,
        };
        let mut v = vec![];
        if me < self.n && ok(me) {
            v.push(me);
        }
        for i in 0..self.n {
            if i != me && ok(i) {
                v.push(i);
            }
        }
        v
    }

    fn abort(&self, g: &mut Inner, why: String) -> ! {
        // threads may be parked inside prqlc holding locks: nothing to unwind safely. Report and leave.
        g.abort = Some(why.clone());
        let choices = g.ctx.choices();
        println!("{}", serde_json::json!({"abort": why, "choices": choices, "steps": g.steps}));
        std::process::exit(0);
    }

    /// decide who runs next; `me` stays parked until it is chosen again
    fn decide<'a>(&'a self, mut g: std::sync::MutexGuard<'a, Inner>, me: usize, label: &'static str) {
        let en = self.enabled(&g, me);
        if en.is_empty() {
            if g.st.iter().all(|s| *s == St::Finished) {
                g.current = None;
                g.done = true;
                self.cv.notify_all();
                return;
            }
            let why = format!("deadlock: no enabled thread at {label} (states {:?})", g.st);
            self.abort(&mut g, why);
        }
        let me_enabled = en[0] == me;
        let c = if en.len() == 1 {
            0
        } else if me_enabled {
            g.ctx.deviate(en.len(), "sched")
        } else {
            g.ctx.choose(en.len(), "sched-free")
        };
        let next = en[c];
        if next != me {
            let step = g.steps;
            g.switches.push((step, me, next, label, me_enabled));
            g.current = Some(next);
            self.cv.notify_all();
            if me < self.n && g.st[me] != St::Finished {
                while g.current != Some(me) {
                    g = self.cv.wait(g).unwrap();
                }
            }
        }
    }

    fn on_event(&self, me: usize, ev: &Event) {
        if !self.fine && ev.kind == Kind::Point && ev.label == "id-gen" {
            return;
        }
        let mut g = self.m.lock().unwrap();
        g.steps += 1;
        *g.labels.entry(ev.label).or_insert(0) += 1;
        if g.steps > HORIZON {
            self.abort(&mut g, format!("horizon of {HORIZON} scheduling steps exceeded (livelock?)"));
        }
        // `progress` counts the steps after which a lock may have been released or an initialisation completed:
        // explicit points, a thread moving on after an acquisition that succeeded, a thread ending. A failed
        // acquisition and its retry are not progress — otherwise two blocked threads would re-enable each
        // other forever while the holder waits (an unfair schedule, not a deadlock).
        match ev.kind {
            Kind::LockBlocked | Kind::OnceBlocked => {
                let p = g.progress;
                g.st[me] = St::Blocked { since: p };
                g.pending_acquire[me] = false;
                g.consecutive_blocked += 1;
                if g.consecutive_blocked > 64 * self.n {
                    let why = format!("deadlock: {} consecutive failed acquisitions and no other step", g.consecutive_blocked);
                    self.abort(&mut g, why);
                }
            }
            _ => {
                if ev.kind == Kind::Point || g.pending_acquire[me] {
                    g.progress += 1;
                    g.consecutive_blocked = 0;
                }
                g.pending_acquire[me] = matches!(ev.kind, Kind::LockAcquire | Kind::OnceEnter);
                g.st[me] = St::Runnable;
            }
        }
        self.decide(g, me, ev.label);
    }

    fn start(&self, me: usize) {
        TID.with(|t| t.set(Some(me)));
        let mut g = self.m.lock().unwrap();
        while g.current != Some(me) {
            g = self.cv.wait(g).unwrap();
        }
    }

    fn finish(&self, me: usize) {
        TID.with(|t| t.set(None));
        let mut g = self.m.lock().unwrap();
        g.st[me] = St::Finished;
        g.progress += 1;
        g.consecutive_blocked = 0;
        self.decide(g, me, "thread-end");
    }
}

pub type Body = Box<dyn FnOnce() -> Vec<String> + Send>;

/// Run `bodies` on real threads under the scheduler, decisions taken from `ctx`.
/// Every execution starts from the process state "no lazily built static initialised, no debug log".
pub fn run_threads(ctx: &mut Ctx, bodies: Vec<Body>, fine: bool) -> Outcome {
    let n = bodies.len();
    verif_sync::set_hook(None);
    let _ = crate::iso::guard(prqlc::debug::log_finish);
    verif_sync::reset();
    let owned = std::mem::replace(ctx, Ctx::new(vec![], 0));
    let sched = Arc::new(Sched {
        m: Mutex::new(Inner {
            ctx: owned,
            current: None,
            st: vec![St::Runnable; n],
            progress: 0,
            consecutive_blocked: 0,
            pending_acquire: vec![false; n],
            steps: 0,
            switches: vec![],
            labels: Default::default(),
            abort: None,
            done: false,
        }),
        cv: Condvar::new(),
        n,
        fine,
    });
    let s2 = sched.clone();
    verif_sync::set_hook(Some(Arc::new(move |ev: &Event| match TID.with(|t| t.get()) {
        Some(me) => {
            s2.on_event(me, ev);
            true
        }
        None => false,
    })));
    let handles: Vec<_> = bodies
        .into_iter()
        .enumerate()
        .map(|(i, b)| {
            let s = sched.clone();
            std::thread::Builder::new()
                .stack_size(64 << 20)
                .spawn(move || {
                    s.start(i);
                    let r = std::panic::catch_unwind(std::panic::AssertUnwindSafe(b));
                    s.finish(i);
                    r.map_err(|_| "thread body panicked outside a guarded call".to_string())
                })
                .expect("spawn")
        })
        .collect();
    {
        // first decision: which thread starts (free choice)
        let mut g = sched.m.lock().unwrap();
        let first = if n > 1 { g.ctx.choose(n, "first") } else { 0 };
        g.current = Some(first);
        sched.cv.notify_all();
        while !g.done {
            g = sched.cv.wait(g).unwrap();
        }
    }
    let results: Vec<_> = handles.into_iter().map(|h| h.join().unwrap_or_else(|_| Err("join failed".into()))).collect();
    verif_sync::set_hook(None);
    let mut g = sched.m.lock().unwrap();
    std::mem::swap(ctx, &mut g.ctx);
    Outcome { results, abort: g.abort.clone(), steps: g.steps, switches: g.switches.clone(), labels: g.labels.clone() }
}
