//! C12 — no input makes a public entry point panic, abort or hang.
//!
//! Sweeps run in worker *processes* (`mc c12w ...`): a panic is caught and attributed to its call
//! site; an abort (stack overflow, allocation failure) kills the worker and is attributed to the
//! case it had announced in its progress file; a case running longer than the wall cap is
//! reported by the worker's watchdog. The parent restarts the sweep behind the fatal case.

use crate::iso::{guard, metered, PanicInfo};
use crate::relcheck::{all_dialects, opts};
use crate::report::{fnv, nthreads, Run, Tier};
use crate::seeds;
use serde_json::{json, Value as J};
use std::collections::{BTreeMap, BTreeSet};
use std::io::Write;
use std::sync::atomic::{AtomicU64, Ordering};
use std::sync::Arc;

pub const LEX: &[&str] = &[
    // core (first LEX_CORE items)
    "from", "select", "derive", "filter", "group", "aggregate", "sort", "take", "join", "let", "func", "case", "import", "module",
    "a", "t", "1", "'s'", "null", "f\"{a}\"", "\n", "|", ":", ",", "=", ".", "..", "(", ")", "{", "}", "->",
    // rest
    "into", "prql", "type", "internal", "window", "1.5", "s\"x\"", "true", "@2020-01-01", "2days", "$1", "*", "`q`", "[",
    "]", "=>", "==", "&&", "-", "+", "!", "??", "~=", "//", "<", "#!d\n", "@",
];

/// text-bearing positions (§ = payload) of the "text" part
pub const TEXT_CARRIERS: &[&str] = &[
    "from s\"§\"",
    "from t | join (s\"§\") (==a)",
    "let x = s\"§\"\nfrom x | select {a}",
    "from t | append (s\"§\")",
    "from t | select {x = s\"§\"}",
    "from t | select {x = s\"{a}§{b}\"}",
    "from t | select {x = f\"§\"}",
    "from t | select {x = f\"{a}§\"}",
    "from t | select {x = \"§\"}",
    "from t | select {x = '§'}",
    "from t | select {x = r\"§\"}",
    "from t | select {x = \"\"\"§\"\"\"}",
    "from t | select {`§`}",
    "from `§`",
    "from `§.§`",
    "from t | select {a} # §",
    "#! §\nfrom t",
    "from t | filter b ~= \"§\"",
    "from t | select {x = (b | text.contains \"§\")}",
    "from t | select {x = (b | text.replace \"§\" \"§\")}",
    "from t | select {x = (d | date.to_text \"§\")}",
    "from t | select {x = (b | in [\"§\"])}",
    "from t | select {x = case [b == \"§\" => \"§\"]}",
    "from [{a = \"§\"}]",
    "from t | select {§ = 1}",
    "from t | select {§}",
    "from §",
    "§",
    "prql target:sql.§\nfrom t",
    "prql target:\"§\"\nfrom t",
    "let f = func p1 -> s\"§{p1}\"\nfrom t | select {x = f a}",
    "from t | sort {s\"§\"} | take 1",
    "from t | group {s\"§\"} (aggregate {n = count this})",
    "from t | select {x = @§}",
    "from t | select {x = 1§}",
    "from t | select {x = $§}",
    // errors located *inside* an interpolated string, behind the payload: with escape sequences before it (the text of
    // the literal is longer than its value), in a triple-quoted literal, in a second hole
    "from t | select {x = s\"\\n§{zz_unknown}\"}",
    "from t | select {x = f\"\\t\\t§{a b}\"}",
    "from t | select {x = s\"\"\"§{zz_unknown}\"\"\"}",
    "from t | select {x = f\"\"\"§{a b}\"\"\"}",
    "from [{a = 1}] | select f\"\\n\\n§{x}\"",
    "from t | select {x = f\"{a}\\u{41}§{zz_unknown}\"}",
    "from_text format:json '[{\"a\": \"§\"}]'",
    "from_text format:json '[{\"§\": 1}]'",
    "from_text format:csv 'a,b\n§,1'",
    "from_text format:csv '§,b\n1,2'",
    "from_text format:json '§'",
    "from_text format:csv '§'",
];

/// numeric positions (§ = value) of the "numbers" part
pub const NUM_CARRIERS: &[&str] = &[
    "from t | take §",
    "from t | take §..",
    "from t | take ..§",
    "from t | take §..§",
    "from t | take § | take §..",
    "from t | take §.. | take §..",
    "from t | take ..§ | take §..",
    "from t | take 2..5 | take §..§",
    "from t | sort a | take §..§ | take 2..3",
    "from t | group a (take §..§)",
    "from t | group a (sort b | take §..)",
    "from t | select {x = a + §}",
    "from t | select {x = § + §}",
    "from t | select {x = § * §}",
    "from t | select {x = § - §}",
    "from t | select {x = § // §}",
    "from t | select {x = § % §}",
    "from t | select {x = § ** §}",
    "from t | select {x = -§}",
    "from t | filter (a | in §..§)",
    "from t | window rows:§..§ (derive s = sum a)",
    "from t | window range:§..§ (sort a | derive s = sum a)",
    "from t | window rolling:§ (derive s = sum a)",
    "from t | window expanding:true rows:§..§ (derive s = sum a)",
    "from t | derive {l = lag § a, e = lead § a}",
    "from t | select {x = math.round § a}",
    "from t | select {x = math.pow § §}",
    "from t | select {x = (b | text.extract § §)}",
    "from t | select {x = @2020-01-01 + §days}",
    "from t | select {x = §years}",
    "from t | select {x = §microseconds + §weeks}",
    "from [{a = §}, {a = §}]",
    "from t | select {x = (§ | as int), y = (§ | as float)}",
    "from t | select {x = case [a == § => §]}",
    "from t | loop (filter a < § | select {a = a + §})",
    "let f = func p1 p2:§ -> p1 + p2\nfrom t | select {x = f §}",
    "from t | sort {§} | take §",
    "from t | select {x = $§}",
    // date / time literals built from numbers
    "from t | select {x = @§}",
    "from t | select {x = @§:§}",
    "from t | select {x = @§Z}",
    "from t | select {x = @2020-§-§}",
    "from t | select {x = @2020-01-01T§:§}",
    // numbers inside embedded data
    "from_text format:json '[{\"a\": §}]'",
    "from_text format:json '[{\"a\": §, \"b\": §}]' | select {a}",
    "from_text format:json '{\"columns\": [\"a\"], \"data\": [[§], [§]]}'",
    "from_text format:csv \"\"\"a,b\n§,§\"\"\"",
    "from_text \"\"\"a\n§\"\"\"",
];

/// the first LEX_CORE items of LEX form the core alphabet used for the longest sequences
const LEX_CORE: usize = 32;

/// reduced replacement alphabet used by the quick edit sweep
const LEX_SMALL: &[&str] = &["a", "1", "'s'", "null", "|", "(", ")", "{", "}", "..", "=", ",", "-", "=="];

/// Identity of a panic finding: file + the *text* of the source line that panics (stable when
/// unrelated edits shift line numbers) + the message head with input-dependent parts removed.
pub fn panic_key(p: &PanicInfo) -> String {
    use std::sync::Mutex;
    static CACHE: Mutex<Option<std::collections::HashMap<String, String>>> = Mutex::new(None);
    let (file, line) = p.site.rsplit_once(':').unwrap_or((&p.site, "0"));
    let line_text = {
        let mut g = CACHE.lock().unwrap();
        let m = g.get_or_insert_with(Default::default);
        m.entry(p.site.clone())
            .or_insert_with(|| {
                let n: usize = line.parse().unwrap_or(0);
                let path = if file.starts_with('/') { file.to_string() } else { format!("{}/{file}", crate::report::repo_root()) };
                std::fs::read_to_string(&path)
                    .ok()
                    .and_then(|t| t.lines().nth(n.saturating_sub(1)).map(|l| l.trim().to_string()))
                    .filter(|l| !l.is_empty())
                    .unwrap_or_else(|| format!("line {line}"))
            })
            .clone()
    };
    let mut msg: String = p.msg.chars().map(|c| if c.is_ascii_digit() { 'N' } else { c }).collect();
    // collapse quoted / backticked payloads that carry input text
    for q in ['`', '"'] {
        let mut out = String::new();
        let mut inq = false;
        for c in msg.chars() {
            if c == q {
                inq = !inq;
                out.push(q);
            } else if !inq {
                out.push(c);
            }
        }
        msg = out;
    }
    let msg: String = msg.lines().next().unwrap_or("").split(':').next().unwrap_or("").chars().take(40).collect();
    let lt: String = line_text.chars().take(70).collect();
    format!("panic@{file} [{lt}] {}", msg.trim())
}

#[derive(Clone, Debug)]
pub enum Case {
    Src(String),
    PlJson(String),
    RqJson(String),
}

impl Case {
    pub fn to_json(&self) -> J {
        match self {
            Case::Src(s) => json!({"source": s}),
            Case::PlJson(s) => json!({"pl_json": s}),
            Case::RqJson(s) => json!({"rq_json": s}),
        }
    }
    pub fn from_json(v: &J) -> Option<Case> {
        if let Some(s) = v["source"].as_str() {
            return Some(Case::Src(s.to_string()));
        }
        if let Some(s) = v["pl_json"].as_str() {
            return Some(Case::PlJson(s.to_string()));
        }
        v["rq_json"].as_str().map(|s| Case::RqJson(s.to_string()))
    }
}

#[derive(Default, Debug)]
pub struct CaseResult {
    pub panics: Vec<(String, PanicInfo)>,
    /// deepest stage reached without error
    pub reached: u8,
    pub alloc_bytes: u64,
    pub alloc_calls: u64,
}

fn sql_stages(rq: prqlc::ir::rq::RelationalQuery, res: &mut CaseResult) {
    for d in all_dialects() {
        let o = opts(d);
        let r = rq.clone();
        match guard(|| prqlc::rq_to_sql(r, &o)) {
            Err(p) => res.panics.push((format!("rq_to_sql[{d}]"), p)),
            Ok(Ok(_)) => res.reached = res.reached.max(5),
            Ok(Err(e)) => {
                if e.inner.is_empty() {
                    res.panics.push((format!("rq_to_sql[{d}]"), PanicInfo { site: "empty-error-list".into(), msg: "Err with no messages".into() }));
                }
            }
        }
    }
}

fn resolve_stages(pl: prqlc::pr::ModuleDef, res: &mut CaseResult) {
    match guard(|| prqlc::pl_to_prql(&pl)) {
        Err(p) => res.panics.push(("pl_to_prql".into(), p)),
        Ok(_) => {}
    }
    match guard(|| prqlc::json::from_pl(&pl)) {
        Err(p) => res.panics.push(("json::from_pl".into(), p)),
        Ok(Ok(js)) => {
            if let Err(p) = guard(|| prqlc::json::to_pl(&js)) {
                res.panics.push(("json::to_pl".into(), p));
            }
        }
        Ok(Err(_)) => {}
    }
    match guard(|| prqlc::pl_to_rq(pl)) {
        Err(p) => res.panics.push(("pl_to_rq".into(), p)),
        Ok(Err(e)) => {
            if e.inner.is_empty() {
                res.panics.push(("pl_to_rq".into(), PanicInfo { site: "empty-error-list".into(), msg: "Err with no messages".into() }));
            }
        }
        Ok(Ok(rq)) => {
            res.reached = res.reached.max(4);
            match guard(|| prqlc::json::from_rq(&rq)) {
                Err(p) => res.panics.push(("json::from_rq".into(), p)),
                Ok(Ok(js)) => {
                    if let Err(p) = guard(|| prqlc::json::to_rq(&js)) {
                        res.panics.push(("json::to_rq".into(), p));
                    }
                }
                Ok(Err(_)) => {}
            }
            sql_stages(rq, res);
        }
    }
}

/// Drive every public entry point with this case, each stage fed by the previous one.
pub fn run_case(c: &Case) -> CaseResult {
    let mut res = CaseResult::default();
    let ((), b, n) = metered(|| match c {
        Case::Src(src) => {
            match guard(|| prqlc::prql_to_tokens(src)) {
                Err(p) => res.panics.push(("prql_to_tokens".into(), p)),
                Ok(Ok(_)) => res.reached = res.reached.max(1),
                Ok(Err(e)) => {
                    if e.inner.is_empty() {
                        res.panics.push(("prql_to_tokens".into(), PanicInfo { site: "empty-error-list".into(), msg: "Err with no messages".into() }));
                    }
                }
            }
            match guard(|| prqlc::prql_to_pl(src)) {
                Err(p) => res.panics.push(("prql_to_pl".into(), p)),
                Ok(Err(e)) => {
                    if e.inner.is_empty() {
                        res.panics.push(("prql_to_pl".into(), PanicInfo { site: "empty-error-list".into(), msg: "Err with no messages".into() }));
                    }
                }
                Ok(Ok(pl)) => {
                    res.reached = res.reached.max(2);
                    resolve_stages(pl, &mut res);
                }
            }
            // the one-shot entry point (error composition against the source, formatting, signature):
            // needed only where the staged chain stopped after parsing — a parse error is composed by
            // prql_to_pl already, and a fully successful chain is C15's subject
            if res.reached >= 2 && res.reached < 5 {
                if let Err(p) = guard(|| prqlc::compile(src, &prqlc::Options::default())) {
                    res.panics.push(("compile".into(), p));
                }
            }
        }
        Case::PlJson(js) => match guard(|| prqlc::json::to_pl(js)) {
            Err(p) => res.panics.push(("json::to_pl".into(), p)),
            Ok(Err(_)) => {}
            Ok(Ok(pl)) => {
                res.reached = 2;
                resolve_stages(pl, &mut res);
            }
        },
        Case::RqJson(js) => match guard(|| prqlc::json::to_rq(js)) {
            Err(p) => res.panics.push(("json::to_rq".into(), p)),
            Ok(Err(_)) => {}
            Ok(Ok(rq)) => {
                res.reached = 4;
                sql_stages(rq, &mut res);
            }
        },
    });
    res.alloc_bytes = b;
    res.alloc_calls = n;
    res
}

// ------------------------------------------------------------------ case spaces

fn tokens_of(src: &str) -> Vec<std::ops::Range<usize>> {
    match prqlc_parser::lexer::lex_source(src) {
        Ok(t) => t.0.into_iter().skip(1).map(|t| t.span).filter(|s| s.start < s.end && s.end <= src.len() && src.is_char_boundary(s.start) && src.is_char_boundary(s.end)).collect(),
        Err(_) => vec![],
    }
}

fn ap_seeds(depth: usize) -> Vec<(String, String)> {
    use crate::apgen::{GenCfg, Letters, SrcKind};
    let cfg = GenCfg { depth, sources: vec![SrcKind::OpenT, SrcKind::LetClosed], max_joins: 1, letters: Letters::Naming };
    let (progs, _) = crate::relrun::enumerate(&[cfg]);
    progs.iter().enumerate().map(|(i, (p, _, _))| (format!("ap#{i}"), crate::model::pr_program(p))).collect()
}

/// Enumerate the cases of one part; `f(idx, case)` returns false to stop.
pub fn for_each_case(part: &str, tier: Tier, mut f: impl FnMut(u64, Case) -> bool) {
    let mut idx = 0u64;
    let mut emit = |c: Case| -> bool {
        let r = f(idx, c);
        idx += 1;
        r
    };
    match part {
        "tokens" => {
            let core: Vec<&str> = LEX.iter().cloned().take(LEX_CORE).collect();
            let spaces: Vec<(usize, Vec<&str>)> = match tier {
                Tier::Quick => vec![(1, LEX.to_vec()), (2, LEX.to_vec()), (3, core)],
                Tier::Thorough => vec![(1, LEX.to_vec()), (2, LEX.to_vec()), (3, LEX.to_vec()), (4, core)],
            };
            for (len, alpha) in spaces {
                let n = alpha.len();
                let total = (n as u64).pow(len as u32);
                for mut i in 0..total {
                    let mut s = String::new();
                    for j in 0..len {
                        if j > 0 {
                            s.push(' ');
                        }
                        s.push_str(alpha[(i % n as u64) as usize]);
                        i /= n as u64;
                    }
                    if !emit(Case::Src(s)) {
                        return;
                    }
                }
            }
        }
        "edits" => {
            let mut seeds = seeds::integration_queries();
            for (i, h) in seeds::HAND.iter().enumerate() {
                seeds.push((format!("hand#{i}"), h.to_string()));
            }
            let mut aps = ap_seeds(1);
            if tier == Tier::Quick {
                aps.truncate(40);
            } else {
                seeds.extend(seeds::book_examples());
            }
            seeds.extend(aps);
            let repl: &[&str] = tier.pick(LEX_SMALL, LEX);
            for (_, src) in &seeds {
                let toks = tokens_of(src);
                for (ti, sp) in toks.iter().enumerate() {
                    let (a, b) = (sp.start, sp.end);
                    // delete
                    if !emit(Case::Src(format!("{}{}", &src[..a], &src[b..]))) {
                        return;
                    }
                    // duplicate
                    if !emit(Case::Src(format!("{} {}{}", &src[..b], &src[a..b], &src[b..]))) {
                        return;
                    }
                    // swap with next
                    if let Some(nx) = toks.get(ti + 1) {
                        if nx.start >= b {
                            let s = format!("{}{}{}{}{}", &src[..a], &src[nx.clone()], &src[b..nx.start], &src[a..b], &src[nx.end..]);
                            if !emit(Case::Src(s)) {
                                return;
                            }
                        }
                    }
                    for r in repl {
                        if *r != &src[a..b] && !emit(Case::Src(format!("{}{}{}", &src[..a], r, &src[b..]))) {
                            return;
                        }
                    }
                }
            }
        }
        "text" => {
            // every text-bearing position of the language × payloads that put a multi-byte character at every
            // byte offset 0..=12 (after an ASCII prefix that does / does not spell a SQL keyword)
            let chars: &[&str] = tier.pick(&["é", "テ", "😀"], &["é", "テ", "😀", "\u{301}", "\u{feff}", "ß", "İ"]);
            let mut prefixes: Vec<String> = vec![];
            for base in ["SELECT a, b FROM t", "  abcdefghijkl", "select\t"] {
                for k in 0..=base.len().min(13) {
                    prefixes.push(base[..k].to_string());
                }
            }
            let suffixes: &[&str] = tier.pick(&["", " a"], &["", " a", "テ", "\n"]);
            for carrier in TEXT_CARRIERS {
                for pre in &prefixes {
                    for ch in chars {
                        for suf in suffixes {
                            if !emit(Case::Src(carrier.replace('§', &format!("{pre}{ch}{suf}")))) {
                                return;
                            }
                        }
                    }
                }
            }
            // escape sequences in every text-bearing position: each escape form at each of its boundary lengths
            // (no digits … more digits than the form allows, closed and unclosed, values outside Unicode)
            let mut escapes: Vec<String> = ["\\n", "\\t", "\\r", "\\0", "\\\\", "\\\"", "\\'", "\\q", "\\", "\\x", "\\x4", "\\x41", "\\x411", "\\xZZ", "\\xff", "\\u41", "\\u", "\\u{", "\\u{}", "\\u{D800}", "\\u{110000}", "\\u{FFFFFF}", "\\u{zz}", "\\b", "\\f", "\\{", "{{", "}}", "\\u{41", "\\U0001F422", "\\N{DASH}", "\\101"].iter().map(|s| s.to_string()).collect();
            for k in 1..=10usize {
                let digits = &"0001F42200"[..k];
                escapes.push(format!("\\u{{{digits}}}"));
                escapes.push(format!("\\u{{{digits}"));
                escapes.push(format!("\\u{{{}}}", &"1234567890"[..k]));
            }
            for carrier in TEXT_CARRIERS {
                for e in &escapes {
                    for (pre, suf) in [("", ""), ("a", "b"), ("é", "\\")] {
                        if !emit(Case::Src(carrier.replace('§', &format!("{pre}{e}{suf}")))) {
                            return;
                        }
                    }
                }
            }
        }
        "programs" => {
            // well-formed programs of the relational core (the AP alphabet of C01, incl. joins of sub-pipelines
            // that join): every accepted program must also get through every entry point
            use crate::apgen::{GenCfg, Letters, SrcKind};
            let sources = vec![SrcKind::OpenT, SrcKind::LetClosed, SrcKind::LetSide, SrcKind::Literal, SrcKind::SubClosed, SrcKind::LetSorted];
            let cfgs = match tier {
                Tier::Quick => vec![GenCfg { depth: 2, sources, max_joins: 2, letters: Letters::Core }],
                Tier::Thorough => vec![GenCfg { depth: 2, sources: sources.clone(), max_joins: 2, letters: Letters::Core }, GenCfg { depth: 3, sources, max_joins: 2, letters: Letters::Naming }],
            };
            let (progs, _) = crate::relrun::enumerate(&cfgs);
            for (p, _, _) in &progs {
                if !emit(Case::Src(crate::model::pr_program(p))) {
                    return;
                }
            }
            // … and the window programs of C04 (partitions, sorts by plain and computed keys, frames, placements)
            for s in crate::c04::program_texts(tier) {
                if !emit(Case::Src(s)) {
                    return;
                }
            }
        }
        "numbers" => {
            // every numeric position × boundary values (one or two slots per carrier)
            let vals: &[&str] = tier.pick(
                &["0", "1", "-1", "12", "65536", "4294967296", "9223372036854775807", "-9223372036854775808", "9223372036854775808", "1e309", "0.5"],
                &["0", "1", "-1", "2", "08", "12", "255", "256", "65535", "65536", "2147483647", "2147483648", "4294967295", "4294967296", "9223372036854775806", "9223372036854775807", "-9223372036854775807", "-9223372036854775808", "9223372036854775808", "18446744073709551615", "18446744073709551616", "1e308", "1e309", "-1e309", "0.5", "00", "1_000", "0x7fffffffffffffff", "0xffffffffffffffff", "0b1", "0o7"],
            );
            for carrier in NUM_CARRIERS {
                let slots = carrier.matches('§').count();
                if slots == 1 {
                    for v in vals {
                        if !emit(Case::Src(carrier.replace('§', v))) {
                            return;
                        }
                    }
                } else {
                    for v in vals {
                        for w in vals {
                            if !emit(Case::Src(carrier.replacen('§', v, 1).replacen('§', w, 1))) {
                                return;
                            }
                        }
                    }
                }
            }
        }
        "json" => {
            let mut seeds: Vec<(String, String)> = seeds::HAND.iter().enumerate().map(|(i, h)| (format!("hand#{i}"), h.to_string())).collect();
            let mut q = seeds::integration_queries();
            if tier == Tier::Quick {
                q.truncate(6);
            }
            seeds.extend(q);
            if tier == Tier::Thorough {
                let mut b = seeds::book_examples();
                b.truncate(60);
                seeds.extend(b);
            }
            for (_, src) in &seeds {
                let Ok(pl) = prqlc::prql_to_pl(src) else { continue };
                if let Ok(js) = prqlc::json::from_pl(&pl) {
                    if let Ok(v) = serde_json::from_str::<J>(&js) {
                        let mut stop = false;
                        json_edits(&v, tier, &mut |e| {
                            if !stop && !emit(Case::PlJson(e.to_string())) {
                                stop = true;
                            }
                        });
                        if stop {
                            return;
                        }
                    }
                }
                if let Ok(rq) = prqlc::pl_to_rq(pl) {
                    if let Ok(js) = prqlc::json::from_rq(&rq) {
                        if let Ok(v) = serde_json::from_str::<J>(&js) {
                            let mut stop = false;
                            json_edits(&v, tier, &mut |e| {
                                if !stop && !emit(Case::RqJson(e.to_string())) {
                                    stop = true;
                                }
                            });
                            if stop {
                                return;
                            }
                        }
                    }
                }
            }
        }
        _ => panic!("unknown part {part}"),
    }
}

/// all single-node edits of a JSON document
fn json_edits(root: &J, tier: Tier, out: &mut dyn FnMut(J)) {
    // collect paths
    fn paths(v: &J, cur: &mut Vec<String>, out: &mut Vec<Vec<String>>) {
        out.push(cur.clone());
        match v {
            J::Object(m) => {
                for (k, x) in m {
                    if k == "span" {
                        continue;
                    }
                    cur.push(k.clone());
                    paths(x, cur, out);
                    cur.pop();
                }
            }
            J::Array(a) => {
                for (i, x) in a.iter().enumerate() {
                    cur.push(i.to_string());
                    paths(x, cur, out);
                    cur.pop();
                }
            }
            _ => {}
        }
    }
    fn get_mut<'a>(v: &'a mut J, p: &[String]) -> Option<&'a mut J> {
        let mut c = v;
        for k in p {
            c = match c {
                J::Object(m) => m.get_mut(k)?,
                J::Array(a) => a.get_mut(k.parse::<usize>().ok()?)?,
                _ => return None,
            };
        }
        Some(c)
    }
    let mut ps = vec![];
    paths(root, &mut vec![], &mut ps);
    // all integer ids present (to swap an id for another existing one)
    let mut ints: BTreeSet<i64> = BTreeSet::new();
    fn collect_ints(v: &J, out: &mut BTreeSet<i64>) {
        match v {
            J::Number(n) => {
                if let Some(i) = n.as_i64() {
                    out.insert(i);
                }
            }
            J::Object(m) => m.values().for_each(|x| collect_ints(x, out)),
            J::Array(a) => a.iter().for_each(|x| collect_ints(x, out)),
            _ => {}
        }
    }
    collect_ints(root, &mut ints);
    let fresh = ints.iter().filter(|i| **i < 1_000_000_000).max().copied().unwrap_or(0) + 1000;
    for p in ps.iter().filter(|p| !p.is_empty()) {
        let (last, parent) = p.split_last().unwrap();
        // delete key / element
        let mut d = root.clone();
        if let Some(par) = get_mut(&mut d, parent) {
            match par {
                J::Object(m) => {
                    m.remove(last);
                }
                J::Array(a) => {
                    if let Ok(i) = last.parse::<usize>() {
                        if i < a.len() {
                            a.remove(i);
                        }
                    }
                }
                _ => {}
            }
            out(d);
        }
        let cur = {
            let mut r = root.clone();
            get_mut(&mut r, p).cloned()
        };
        let Some(cur) = cur else { continue };
        let mut consts: Vec<J> = vec![J::Null, json!(0), json!(-1), json!("x"), json!([]), json!({}), json!(true)];
        if tier == Tier::Quick {
            consts.truncate(5);
        }
        match &cur {
            J::Number(n) if n.is_i64() => {
                let me = n.as_i64().unwrap();
                for other in ints.iter().filter(|i| **i != me).take(3) {
                    consts.push(json!(other));
                }
                consts.push(json!(fresh));
            }
            J::Array(a) if !a.is_empty() => {
                let mut dup = a.clone();
                dup.push(a[0].clone());
                consts.push(J::Array(dup));
            }
            J::Object(m) if m.len() == 1 => {
                // swap an enum tag
                let (k, v) = m.iter().next().unwrap();
                for tag in ["Ident", "Literal", "Pipeline", "Select", "From", "ColumnRef", "Compute"] {
                    if tag != k {
                        consts.push(json!({ tag: v.clone() }));
                    }
                }
            }
            J::String(_) => {
                consts.push(json!(""));
                consts.push(json!("std.add"));
            }
            _ => {}
        }
        for c in consts {
            if c == cur {
                continue;
            }
            let mut d = root.clone();
            if let Some(slot) = get_mut(&mut d, p) {
                *slot = c;
                out(d);
            }
        }
    }
}

// ------------------------------------------------------------------ growth families

pub const FAMILIES: &[&str] = &[
    "parens", "tuples", "arrays", "unary-neg", "unary-not", "binary-add-left", "binary-pow-right", "binary-and", "pipeline-steps",
    "case-arms", "fstring-holes", "module-nesting", "long-ident", "long-string", "long-tuple", "nested-calls", "nested-pipelines",
    "derive-chain", "coalesce-chain", "range-chain", "let-chain", "join-chain", "long-comment", "nested-sstring", "wide-line", "wide-tuple-item",
];

pub fn family_source(name: &str, n: usize) -> String {
    let rep = |s: &str, k: usize| s.repeat(k);
    match name {
        "parens" => format!("from t | select {{x = {}a{}}}", rep("(", n), rep(")", n)),
        "tuples" => format!("from t | select {}a{}", rep("{", n), rep("}", n)),
        "arrays" => format!("let x = {}1{}\nfrom t", rep("[", n), rep("]", n)),
        "unary-neg" => format!("from t | select {{x = {}a}}", rep("- ", n)),
        "unary-not" => format!("from t | filter {}a", rep("!", n)),
        "binary-add-left" => format!("from t | select {{x = a{}}}", rep(" + 1", n)),
        "binary-pow-right" => format!("from t | select {{x = a{}}}", rep(" ** 2", n)),
        "binary-and" => format!("from t | filter a > 0{}", rep(" && a > 0", n)),
        "pipeline-steps" => format!("from t{}", rep(" | filter a > 1", n)),
        "case-arms" => format!("from t | select {{x = case [{} true => 0]}}", rep("a == 1 => 1,", n)),
        "fstring-holes" => format!("from t | select {{x = f\"{}\"}}", rep("{a}-", n)),
        "module-nesting" => format!("{} let c = 1 {}\nfrom t", (0..n).map(|i| format!("module m{i} {{")).collect::<String>(), rep("}", n)),
        "long-ident" => format!("from t | select {{{}}}", rep("a", n * 64)),
        "long-string" => format!("from t | select {{x = '{}'}}", rep("s", n * 256)),
        "long-tuple" => format!("from t | select {{{}}}", (0..n * 8).map(|i| format!("c{i}")).collect::<Vec<_>>().join(", ")),
        "nested-calls" => format!("let f = x -> x + 1\nfrom t | select {{y = {}a{}}}", rep("(f ", n), rep(")", n)),
        "nested-pipelines" => format!("from t | select {{y = {}a{}}}", rep("(", n), rep(" | math.abs)", n)),
        "derive-chain" => format!("from t{}", (0..n).map(|i| format!(" | derive c{} = {} + 1", i + 1, if i == 0 { "a".to_string() } else { format!("c{i}") })).collect::<String>()),
        "coalesce-chain" => format!("from t | select {{x = a{}}}", rep(" ?? b", n)),
        "range-chain" => format!("from t | filter (a | in 1..{})", rep("1..", n)),
        "let-chain" => format!("let t0 = (from t)\n{}from t{}", (0..n).map(|i| format!("let t{} = (from t{} | filter a > {})\n", i + 1, i, i)).collect::<String>(), n),
        "join-chain" => format!("from t{}", (0..n).map(|i| format!(" | join u{i} (==a)")).collect::<String>()),
        // widths between the formatter's retry widths and 2^16 (n = 64 → 57600 columns)
        "wide-line" => format!("let {} = 1\nfrom t", rep("a", n * 900)),
        "wide-tuple-item" => format!("from t | select {{a, x = '{}', b}}", rep("s", n * 900)),
        "long-comment" => format!("# {}\nfrom t", rep("c", n * 256)),
        "nested-sstring" => format!("from t | select {{x = {}a{}}}", rep("s\"ABS({", n.min(1)), rep("})\"", n.min(1))).replace("ABS", &rep("A", n)),
        _ => panic!("unknown family {name}"),
    }
}

// ------------------------------------------------------------------ worker

const WALL_CAP_S: u64 = 20;
/// cap for one (family, n) process: two orders of magnitude above the largest legitimate case
const FAMILY_CAP_S: u64 = 20;

fn progress_path(tag: &str) -> std::path::PathBuf {
    let dir = std::env::var("CARGO_TARGET_DIR").map(std::path::PathBuf::from).unwrap_or_else(|_| crate::report::verif_root().join("target"));
    let _ = std::fs::create_dir_all(&dir);
    dir.join(format!("c12-progress-{tag}"))
}

/// `mc c12w sweep <part> <tier> <shard> <nshards> <from_idx>`  |  `mc c12w family <name> <n>`
pub fn worker(args: &[String]) -> i32 {
    let run = {
        let args: Vec<String> = args.to_vec();
        move || -> i32 {
            match args.first().map(|s| s.as_str()) {
                Some("family") => {
                    let name = &args[1];
                    let n: usize = args[2].parse().unwrap();
                    let src = family_source(name, n);
                    let r = run_case(&Case::Src(src.clone()));
                    let panics: Vec<J> = r.panics.iter().map(|(st, p)| json!({"stage": st, "site": p.site, "msg": p.msg, "key": panic_key(p)})).collect();
                    println!("{}", json!({"family": name, "n": n, "len": src.len(), "alloc_bytes": r.alloc_bytes, "alloc_calls": r.alloc_calls, "reached": r.reached, "panics": panics}));
                    0
                }
                Some("sweep") => {
                    let part = args[1].clone();
                    let tier = if args[2] == "thorough" { Tier::Thorough } else { Tier::Quick };
                    let shard: u64 = args[3].parse().unwrap();
                    let nshards: u64 = args[4].parse().unwrap();
                    let from: u64 = args[5].parse().unwrap();
                    let pp = progress_path(&format!("{part}-{shard}"));
                    let mut pf = std::fs::OpenOptions::new().create(true).write(true).truncate(true).open(&pp).expect("progress file");
                    let cur = Arc::new(AtomicU64::new(u64::MAX));
                    let started = Arc::new(AtomicU64::new(0));
                    let t0 = std::time::Instant::now();
                    {
                        let cur = cur.clone();
                        let started = started.clone();
                        std::thread::spawn(move || loop {
                            std::thread::sleep(std::time::Duration::from_millis(500));
                            let c = cur.load(Ordering::SeqCst);
                            let s = started.load(Ordering::SeqCst);
                            let now = t0.elapsed().as_secs();
                            if c != u64::MAX && now > s + WALL_CAP_S {
                                println!("{}", json!({"hang": c}));
                                std::process::exit(3);
                            }
                        });
                    }
                    let out = std::io::stdout();
                    let mut n = 0u64;
                    let mut reached = [0u64; 6];
                    let mut distinct: BTreeSet<u64> = BTreeSet::new();
                    let mut max_alloc = 0u64;
                    for_each_case(&part, tier, |idx, case| {
                        if idx % nshards != shard || idx < from {
                            return true;
                        }
                        use std::os::unix::fs::FileExt;
                        let _ = pf.write_all_at(&idx.to_le_bytes(), 0);
                        started.store(t0.elapsed().as_secs(), Ordering::SeqCst);
                        cur.store(idx, Ordering::SeqCst);
                        let r = run_case(&case);
                        cur.store(u64::MAX, Ordering::SeqCst);
                        n += 1;
                        reached[r.reached as usize] += 1;
                        max_alloc = max_alloc.max(r.alloc_bytes);
                        distinct.insert((r.reached as u64) << 32 | (r.panics.len() as u64));
                        for (st, p) in &r.panics {
                            let mut o = out.lock();
                            let _ = writeln!(o, "{}", json!({"idx": idx, "stage": st, "site": p.site, "msg": p.msg, "key": panic_key(p), "case": case.to_json()}));
                        }
                        true
                    });
                    let _ = pf.flush();
                    println!("{}", json!({"done": true, "cases": n, "reached": reached, "max_alloc_bytes": max_alloc}));
                    0
                }
                _ => 2,
            }
        }
    };
    // the stated stack: 8 MiB (the default main-thread stack)
    std::thread::Builder::new().stack_size(8 << 20).spawn(run).unwrap().join().unwrap_or(101)
}

/// an RQ document in which some Compute's expression contains a ColumnRef to the id it defines
/// the RQ document defines a Compute whose expression (or window) refers, directly or through other
/// Computes, to its own id: SQL generation follows the references without end
fn rq_self_reference(js: &str) -> bool {
    fn refs(v: &J, out: &mut Vec<i64>) {
        match v {
            J::Object(m) => {
                for (k, x) in m {
                    if k == "ColumnRef" {
                        if let Some(i) = x.as_i64() {
                            out.push(i);
                        }
                    }
                    refs(x, out);
                }
            }
            J::Array(a) => a.iter().for_each(|x| refs(x, out)),
            J::Number(_) => {}
            _ => {}
        }
    }
    fn computes(v: &J, out: &mut BTreeMap<i64, Vec<i64>>) {
        match v {
            J::Object(m) => {
                if let Some(c) = m.get("Compute") {
                    if let Some(id) = c["id"].as_i64() {
                        let mut r = vec![];
                        refs(c, &mut r);
                        // window partition / sort hold bare ids
                        for key in ["partition"] {
                            if let Some(a) = c["window"][key].as_array() {
                                r.extend(a.iter().filter_map(|x| x.as_i64()));
                            }
                        }
                        if let Some(a) = c["window"]["sort"].as_array() {
                            r.extend(a.iter().filter_map(|x| x["column"].as_i64()));
                        }
                        out.entry(id).or_default().extend(r);
                    }
                }
                m.values().for_each(|x| computes(x, out));
            }
            J::Array(a) => a.iter().for_each(|x| computes(x, out)),
            _ => {}
        }
    }
    let Ok(v) = serde_json::from_str::<J>(js) else { return false };
    let mut g = BTreeMap::new();
    computes(&v, &mut g);
    // cycle search
    fn reach(g: &BTreeMap<i64, Vec<i64>>, from: i64, target: i64, seen: &mut BTreeSet<i64>) -> bool {
        for n in g.get(&from).into_iter().flatten() {
            if *n == target {
                return true;
            }
            if seen.insert(*n) && reach(g, *n, target, seen) {
                return true;
            }
        }
        false
    }
    g.keys().any(|k| reach(&g, *k, *k, &mut BTreeSet::new()))
}

/// the token `import` followed by two or more further tokens (the parser does not return)
fn import_with_two_operands(s: &str) -> bool {
    let toks: Vec<&str> = s.split_whitespace().collect();
    toks.iter().position(|t| *t == "import").map(|i| toks.len() - i - 1 >= 2).unwrap_or(false)
}

// ------------------------------------------------------------------ parent

struct SweepOut {
    cases: u64,
    reached: [u64; 6],
    panics: Vec<J>,
    aborts: Vec<(u64, String)>,
    hangs: Vec<u64>,
    max_alloc: u64,
}

fn find_case(part: &str, tier: Tier, want: u64) -> Option<Case> {
    let mut found = None;
    for_each_case(part, tier, |idx, c| {
        if idx == want {
            found = Some(c);
            false
        } else {
            true
        }
    });
    found
}

fn sweep(part: &str, tier: Tier) -> SweepOut {
    let exe = crate::report::worker_exe();
    let nsh = nthreads() as u64;
    let mut out = SweepOut { cases: 0, reached: [0; 6], panics: vec![], aborts: vec![], hangs: vec![], max_alloc: 0 };
    let results: Vec<(Vec<J>, Vec<(u64, String)>, Vec<u64>)> = std::thread::scope(|sc| {
        let hs: Vec<_> = (0..nsh)
            .map(|sh| {
                let exe = exe.clone();
                let part = part.to_string();
                sc.spawn(move || {
                    let mut lines = vec![];
                    let mut aborts = vec![];
                    let mut hangs = vec![];
                    let mut from = 0u64;
                    loop {
                        let o = std::process::Command::new(&exe)
                            .args(["c12w", "sweep", &part, tier.name(), &sh.to_string(), &nsh.to_string(), &from.to_string()])
                            .stderr(std::process::Stdio::null())
                            .output()
                            .expect("spawn worker");
                        let txt = String::from_utf8_lossy(&o.stdout);
                        let mut done = false;
                        let mut hang = None;
                        for l in txt.lines() {
                            if let Ok(v) = serde_json::from_str::<J>(l) {
                                if v.get("done").is_some() {
                                    done = true;
                                }
                                if let Some(h) = v.get("hang").and_then(|h| h.as_u64()) {
                                    hang = Some(h);
                                }
                                lines.push(v);
                            }
                        }
                        if done {
                            break;
                        }
                        // the worker died: which case had it announced?
                        let pp = progress_path(&format!("{part}-{sh}"));
                        let idx = std::fs::read(&pp).ok().and_then(|b| b.get(..8).map(|x| u64::from_le_bytes(x.try_into().unwrap()))).unwrap_or(u64::MAX);
                        if let Some(h) = hang {
                            hangs.push(h);
                            from = h + 1;
                        } else {
                            aborts.push((idx, format!("worker exit status {:?}", o.status)));
                            if idx == u64::MAX {
                                break;
                            }
                            from = idx + 1;
                        }
                        if aborts.len() + hangs.len() > 50 {
                            break;
                        }
                    }
                    (lines, aborts, hangs)
                })
            })
            .collect();
        hs.into_iter().map(|h| h.join().unwrap()).collect()
    });
    for (lines, aborts, hangs) in results {
        for v in lines {
            if v.get("done").is_some() {
                out.cases += v["cases"].as_u64().unwrap_or(0);
                out.max_alloc = out.max_alloc.max(v["max_alloc_bytes"].as_u64().unwrap_or(0));
                for i in 0..6 {
                    out.reached[i] += v["reached"][i].as_u64().unwrap_or(0);
                }
            } else if v.get("key").is_some() {
                out.panics.push(v);
            }
        }
        out.aborts.extend(aborts);
        out.hangs.extend(hangs);
    }
    out
}

pub fn run(tier: Tier) -> i32 {
    let mut run = Run::new("C12", tier);
    let parts: &[&str] = &["tokens", "text", "numbers", "programs", "edits", "json"];
    for part in parts {
        let s = sweep(part, tier);
        run.count(&format!("{part}:cases"), s.cases);
        run.validated += s.cases;
        run.states += s.cases;
        for (i, n) in s.reached.iter().enumerate() {
            run.count(&format!("{part}:deepest_stage_reached={}", ["none", "tokens", "pl", "?", "rq", "sql"][i]), *n);
            run.observe(fnv(&format!("{part}{i}{}", n.min(&1))));
        }
        run.count(&format!("{part}:max_alloc_bytes_in_one_case"), s.max_alloc);
        // one violation per (key) with the shortest case
        let mut by_key: BTreeMap<String, Vec<&J>> = BTreeMap::new();
        for p in &s.panics {
            by_key.entry(p["key"].as_str().unwrap_or("?").to_string()).or_default().push(p);
        }
        // a finding is a panic site *and* the kind of input that reaches it: a site known to be reachable from
        // a hand-edited JSON document is a different finding when a source text reaches it
        let class = if *part == "json" { "json" } else { "source" };
        for (k, mut ps) in by_key {
            let k = format!("{k} <{class}>");
            run.observe(fnv(&k));
            ps.sort_by_key(|p| p["case"].to_string().len());
            run.count(&format!("{part}:panicking_cases"), ps.len() as u64);
            let p = ps[0];
            run.violate(
                Some(k.clone()),
                format!("{} panics at {} ({}): {} — {} cases in part `{part}`, shortest: {}", p["stage"].as_str().unwrap_or(""), p["site"].as_str().unwrap_or(""), k, p["msg"].as_str().unwrap_or(""), ps.len(), p["case"].to_string().chars().take(300).collect::<String>()),
                json!({"driver": part, "case": p["case"], "stage": p["stage"], "panic_site": p["site"], "panic_msg": p["msg"], "cases_with_this_key": ps.len()}),
            );
        }
        for (idx, why) in &s.aborts {
            let case = find_case(part, tier, *idx);
            let ident = match &case {
                // cause predicates of the recorded aborts
                Some(Case::Src(s)) if import_with_two_operands(s) => "import-followed-by-two-operands".to_string(),
                Some(Case::RqJson(js)) if rq_self_reference(js) => "rq-compute-refers-to-its-own-id".to_string(),
                Some(Case::Src(s)) if s.len() <= 80 => s.replace('\n', "\\n"),
                Some(c) => format!("{:016x}", fnv(&c.to_json().to_string())),
                None => "?".into(),
            };
            run.violate(
                Some(format!("abort:{}:{ident}", if *part == "json" { "json" } else { "source" })),
                format!("worker died ({why}) on case {idx} of part `{part}`: {}", case.as_ref().map(|c| c.to_json().to_string().chars().take(400).collect::<String>()).unwrap_or_default()),
                json!({"driver": part, "case": case.map(|c| c.to_json()), "abort": why}),
            );
        }
        for idx in &s.hangs {
            let case = find_case(part, tier, *idx);
            run.violate(Some(format!("hang:{part}")), format!("case {idx} of `{part}` exceeded {WALL_CAP_S}s"), json!({"driver": part, "case": case.map(|c| c.to_json())}));
        }
    }
    // growth families: each (family, n) in its own process on an 8 MiB stack
    let ns: &[usize] = tier.pick(&[8, 16, 32, 64], &[8, 16, 32, 64, 128, 256, 512]);
    let exe = crate::report::worker_exe();
    // one job per family: sizes in increasing order, stopping at the first death or hang
    let fams: Vec<&str> = FAMILIES.to_vec();
    let fam_outs: Vec<Vec<(usize, Option<J>, String, f64)>> = crate::report::par_map(&fams, || (), |_, f| {
        let mut rows = vec![];
        for n in ns {
            let t0 = std::time::Instant::now();
            let mut child = std::process::Command::new(&exe).args(["c12w", "family", f, &n.to_string()]).stdout(std::process::Stdio::piped()).stderr(std::process::Stdio::null()).spawn().expect("spawn");
            let mut hung = false;
            loop {
                match child.try_wait() {
                    Ok(Some(_)) => break,
                    Ok(None) => {
                        if t0.elapsed().as_secs() >= FAMILY_CAP_S {
                            let _ = child.kill();
                            hung = true;
                            break;
                        }
                        std::thread::sleep(std::time::Duration::from_millis(10));
                    }
                    Err(_) => break,
                }
            }
            let o = child.wait_with_output().expect("wait");
            if hung {
                rows.push((*n, None, "hang".to_string(), t0.elapsed().as_secs_f64()));
                break;
            }
            let v = String::from_utf8_lossy(&o.stdout).lines().filter_map(|l| serde_json::from_str::<J>(l).ok()).last();
            let dead = v.is_none();
            rows.push((*n, v, format!("{:?}", o.status), t0.elapsed().as_secs_f64()));
            if dead {
                break;
            }
        }
        rows
    });
    let mut fam_table: BTreeMap<String, Vec<J>> = BTreeMap::new();
    let by_family: BTreeMap<&str, Vec<(usize, Option<J>, String, f64)>> = fams.iter().cloned().zip(fam_outs).collect();
    for (f, rows) in by_family {
        run.states += rows.len() as u64;
        run.validated += rows.len() as u64;
        let mut first_death: Option<(usize, String)> = None;
        let mut prev: Option<(usize, u64)> = None;
        let mut worst_ratio = 0.0f64;
        for (n, v, status, secs) in &rows {
            match v {
                None => {
                    if first_death.is_none() {
                        first_death = Some((*n, status.clone()));
                    }
                    fam_table.entry(f.to_string()).or_default().push(json!({"n": n, "died": status, "wall_s": secs}));
                }
                Some(v) => {
                    let bytes = v["alloc_bytes"].as_u64().unwrap_or(0);
                    fam_table.entry(f.to_string()).or_default().push(json!({"n": n, "len": v["len"], "alloc_bytes": bytes, "reached": v["reached"], "wall_s": secs}));
                    if let Some((pn, pb)) = prev {
                        if *n == pn * 2 && pb > 200_000 {
                            worst_ratio = worst_ratio.max(bytes as f64 / pb as f64);
                        }
                    }
                    prev = Some((*n, bytes));
                    for p in v["panics"].as_array().cloned().unwrap_or_default() {
                        let k = format!("{} <source>", p["key"].as_str().unwrap_or("?"));
                        run.violate(Some(k.clone()), format!("family {f} n={n}: {} panics at {}: {}", p["stage"], p["site"], p["msg"]), json!({"driver":"family","family": f, "n": n, "case": {"source": family_source(f, *n)}, "panic_site": p["site"], "panic_msg": p["msg"]}));
                    }
                }
            }
        }
        if let Some((n, status)) = first_death {
            // a member that does not answer in time and one that answers with an exploded allocation
            // volume are the same finding (which of the two is seen depends on the machine's speed)
            let key = if status == "hang" { format!("cost-explosion:family:{f}") } else { format!("stack-overflow:family:{f}") };
            let what = if status == "hang" { format!("family {f}: no answer within {FAMILY_CAP_S}s at n={n}") } else { format!("family {f}: worker died at n={n} ({status}) on an 8 MiB stack") };
            run.violate(Some(key), what, json!({"driver":"family","family": f, "n": n, "case": {"source": family_source(f, n)}, "status": status}));
        }
        // growth: doubling n must not multiply the allocation volume by more than 2^3.5
        if worst_ratio > 11.32 && !rows.iter().any(|r| r.2 == "hang") {
            run.violate(Some(format!("cost-explosion:family:{f}")), format!("family {f}: allocation volume grows by ×{worst_ratio:.1} when n doubles"), json!({"driver":"family","family": f, "ratio": worst_ratio}));
        }
        run.observe(fnv(f));
    }
    run.set("growth_families", json!(fam_table));
    run.transitions = run.states;
    run.set("bounds", json!({"token_alphabet": LEX.len(), "token_sequences": tier.pick("len<=2 over 59 items, len 3 over the 32-item core", "len<=3 over 59 items, len 4 over the 32-item core"), "edit_kinds": ["delete","duplicate","swap-adjacent","replace-by-alphabet-item"], "replacement_alphabet": tier.pick(LEX_SMALL.len(), LEX.len()),
        "text_payloads": "36 text-bearing positions × ASCII prefixes of every length 0..=13 (three prefix texts) × multi-byte characters of 2, 3 and 4 bytes × suffixes", "number_payloads": "48 numeric positions × boundary values (all pairs for two-slot positions)", "json_edits": "every node × {delete, null, constants, duplicate element, other id, fresh id, swapped enum tag}", "families": FAMILIES, "family_sizes": ns, "stack_bytes": 8 << 20, "wall_cap_s": WALL_CAP_S, "dialects": 12}));
    run.set("rule", json!("case = one input driven through every public entry point (tokens, pl, fmt, json, rq, sql for 12 dialects, one-shot compile); a panic, a dead worker, an empty error list, a call over the wall cap or allocation growth above 2^3.5 per doubling is a violation; identity of a finding = panic file + message head (file:line for generic unwrap messages) / family name"));
    run.assume("growth ('small polynomial') is judged by a deterministic allocation meter on parametric families, not by wall time");
    run.assume("depth families run on a stated 8 MiB stack");
    run.finish()
}

pub fn replay(v: &J) -> i32 {
    let Some(c) = Case::from_json(&v["case"]) else {
        println!("no case in replay file");
        return 2;
    };
    let r = run_case(&c);
    if r.panics.is_empty() {
        println!("OK: no panic (reached stage {})", r.reached);
        0
    } else {
        for (st, p) in &r.panics {
            println!("FAIL {st}: panic at {}: {} [{}]", p.site, p.msg, panic_key(p));
        }
        1
    }
}
