//! JSON helpers shared by checks.
use serde_json::Value as J;

/// remove every `span` member
pub fn strip_spans(v: &mut J) {
    match v {
        J::Object(m) => {
            m.remove("span");
            for (_, x) in m.iter_mut() {
                strip_spans(x);
            }
        }
        J::Array(a) => a.iter_mut().for_each(strip_spans),
        _ => {}
    }
}

pub fn parse_stripped(s: &str) -> J {
    let mut v: J = serde_json::from_str(s).unwrap_or(J::Null);
    strip_spans(&mut v);
    v
}
