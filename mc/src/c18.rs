//! C18 — the dialect is chosen by options, then by the query header, then generic.
//! MAT driver: the complete (option × header × program) matrix.

use crate::engine;
use crate::iso::guard;
use crate::relcheck::{all_dialects, dname, err_text};
use crate::report::{fnv, par_map, Run, Tier};
use prqlc::sql::Dialect;
use prqlc::{Options, Target};
use serde_json::json;
use std::str::FromStr;

/// programs chosen so that every pair of dialects is separated by at least one of them
pub const PROGRAMS: &[&str] = &[
    "from t | take 3",
    "from t | sort a | take 2..4",
    "from t | sort a | take 3..",
    "from `select` | select {`from`, `my col`}",
    "from t | select {x = a // b, y = a % b}",
    "from t | select {s = f\"{a}-{b}\"}",
    "from t | filter a ~= \"x\"",
    "from t | derive d = @2020-01-01 + 2days",
    "from t | derive s = (d | date.to_text \"%Y-%m-%d\")",
    "from t | group a (take 1)",
    "from t | group a (sort b | take 1)",
    "from t | select !{a}",
    "from t | select {a, b} | select !{a}",
    "from t | select {l = text.length a, p = math.pow a 2}",
    "from t | remove u",
    "from t | select {a,b} | intersect (from u | select {a, d})",
    "from t | select {a,b} | remove (from u | select {a, d})",
    "from t | append u",
    "from t | select {a} | group a (take 1)",
    "from [{a=1, b=2}] | select {a}",
    "from t | select {x = a ?? b, y = a == null, z = -a}",
    "from t | window rolling:2 (sort a | derive s = sum b)",
    "from t | derive r = rank a | filter r == 1",
    "from t | select {c = a | as int}",
    "from t | loop (filter a < 3 | select {a = a + 1})",
    "from t | select {x = text.contains \"a\" b, y = text.starts_with \"a\" b}",
    "from t | select {u = text.upper a, tr = text.ltrim a}",
    "from t | aggregate {s = stddev a, c = count_distinct a, l = concat_array a}",
    "from t | select {r = math.round 2 a, d = a / b}",
    "from (read_csv \"x.csv\") | take 1",
    "from t | filter (a | in 1..3)",
    "from t | select {i = 2years, j = 5hours}",
    "from db.schema.tbl | select {`first name`}",
    "from t | select {tz = @2020-01-01T10:00:00+02:00, tm = @10:00}",
    "from t | filter a > 1 | filter b > 1 | take 1 | filter a < 3",
    "frm t",
    "from t | select {nope x}",
    "from t | select {x = s\"RANDOM()\"}",
    "from t | join side:full u (==a)",
    "from t | sort {-a} | select {b} | take 1",
    // the header is itself a declaration called `prql`: programs that use that name — the compiler version behind
    // `prql.version`, a column / a constant / a module called `prql` — must be accepted or rejected alike with the
    // target in the header and in the option
    "from t | derive {v = prql.version} | take 1",
    "from t | select {`prql` = a}",
    "from t | select {`prql`, a}",
    "let `prql` = 5\nfrom t | take 1",
    // relations given as SQL text, in each quoting style a dialect might read differently
    "from s\"SELECT b, a FROM t\" | select {a, b}",
    "from s\"SELECT [b], [a] FROM t\"",
    "from s\"SELECT [b], [a] FROM t\" | select {a}",
    "from s\"SELECT \\\"b\\\", \\\"a\\\" FROM t\"",
    "from s\"SELECT `b`, `a` FROM t\"",
    "from s\"SELECT 'b' AS b, a FROM t\" | sort a | take 2",
    "from t | join (s\"SELECT [a], [d] FROM u\") (==a)",
    "let x = s\"SELECT \\\"a\\\" FROM t\"\nfrom x | select {a}",
];

#[derive(Clone, Debug)]
enum Hdr {
    Absent,
    Name(String),
    Malformed,
}

fn with_header(h: &Hdr, p: &str) -> String {
    match h {
        Hdr::Absent => p.to_string(),
        Hdr::Name(n) => format!("prql target:{n}\n{p}"),
        Hdr::Malformed => format!("prql target:5\n{p}"),
    }
}

fn compile(src: &str, target: Target, format: bool) -> Result<Result<String, String>, crate::iso::PanicInfo> {
    let o = Options::default().with_format(format).no_signature().with_target(target).with_display(prqlc::DisplayOptions::Plain);
    guard(|| prqlc::compile(src, &o).map_err(|e| err_text(&e)))
}

pub fn run(tier: Tier) -> i32 {
    let mut run = Run::new("C18", tier);
    let dialects = all_dialects();
    // the matrix as a choice space (so that counts come from the engine)
    let (cells, st) = engine::collect(0, |c| {
        let p = c.choose(PROGRAMS.len(), "program");
        let o = c.choose(dialects.len() + 1, "option"); // 0 = absent
        let h = c.choose(dialects.len() + 4, "header"); // 0 absent, 1 sql.any, 2.. dialects, then unknown, malformed
        Some((p, o, h))
    });
    let hdr = |h: usize| -> Hdr {
        match h {
            0 => Hdr::Absent,
            1 => Hdr::Name("sql.any".into()),
            h if h < 2 + dialects.len() => Hdr::Name(format!("sql.{}", dname(dialects[h - 2]))),
            h if h == 2 + dialects.len() => Hdr::Name("sql.nosuchdialect".into()),
            _ => Hdr::Malformed,
        }
    };
    let formats: &[bool] = if tier == Tier::Thorough { &[false, true] } else { &[false] };
    // reference outputs: program × dialect (option only, no header)
    let results = par_map(
        &cells.iter().map(|(c, _)| *c).collect::<Vec<_>>(),
        || (),
        |_, &(p, o, h)| {
            let mut bad: Vec<(String, String)> = vec![];
            let mut hashes = vec![];
            let prog = PROGRAMS[p];
            let hd = hdr(h);
            let src = with_header(&hd, prog);
            for &fmt in formats {
                let target = if o == 0 { Target::Sql(None) } else { Target::Sql(Some(dialects[o - 1])) };
                let got = match compile(&src, target, fmt) {
                    Ok(r) => r,
                    Err(_pi) => {
                        // a panic is C12's finding; this cell has no output to compare
                        continue;
                    }
                };
                hashes.push(fnv(&format!("{got:?}")));
                // what the documented rule selects
                let expect: Result<Dialect, &str> = if o > 0 {
                    Ok(dialects[o - 1])
                } else {
                    match &hd {
                        Hdr::Absent => Ok(Dialect::Generic),
                        Hdr::Name(n) if n == "sql.any" => Ok(Dialect::Generic),
                        Hdr::Name(n) => match dialects.iter().find(|d| format!("sql.{}", dname(**d)) == *n) {
                            Some(d) => Ok(*d),
                            None => Err("unknown target"),
                        },
                        Hdr::Malformed => Err("malformed target"),
                    }
                };
                match expect {
                    Ok(d) => {
                        // reference: same program, no header, explicit option d
                        let want = match compile(prog, Target::Sql(Some(d)), fmt) {
                            Ok(r) => r,
                            Err(_) => continue,
                        };
                        // a malformed header is a parse error whatever the option says
                        if matches!(hd, Hdr::Malformed) {
                            if got.is_ok() {
                                bad.push(("malformed-header-accepted".into(), format!("`prql target:5` accepted with option {o}")));
                            }
                            continue;
                        }
                        if got != want {
                            let key = if o > 0 { "option-does-not-override-header" } else if matches!(hd, Hdr::Absent) { "default-is-not-generic" } else { "header-differs-from-option" };
                            bad.push((key.into(), format!("expected the output of option sql.{}: {:?}\n got {:?}", dname(d), want, got)));
                        }
                    }
                    Err(why) => {
                        if got.is_ok() {
                            bad.push(("unknown-target-accepted".into(), format!("{why} in header compiled to {:?}", got)));
                        }
                    }
                }
            }
            // the resolver's verdict must not depend on the header
            if o == 0 && !matches!(hd, Hdr::Malformed) {
                let rq = |s: &str| guard(|| prqlc::prql_to_pl(s).and_then(prqlc::pl_to_rq).map(|mut rq| { rq.def.other.clear(); crate::jsonutil::parse_stripped(&prqlc::json::from_rq(&rq).unwrap_or_default()).to_string() }).map_err(|e| err_text(&e)));
                if let (Ok(a), Ok(b)) = (rq(prog), rq(&src)) {
                    if a != b {
                        bad.push(("resolver-depends-on-target".into(), format!("RQ / verdict differs with header {hd:?}: {:?} vs {:?}", a.map(|s| s.len()), b.map(|s| s.len()))));
                    }
                }
            }
            (bad, hashes)
        },
    );
    for (((p, o, h), ch), (bad, hashes)) in cells.iter().map(|(c, ch)| (*c, ch)).zip(results) {
        run.validated += formats.len() as u64;
        for hh in hashes {
            run.observe(hh);
        }
        for (k, m) in bad {
            // cause predicate of a recorded finding: the header is kept as a declaration called `prql`, so a column
            // of that name read from the table is ambiguous as soon as a header is present
            let k = if PROGRAMS[p].contains("`prql`") && h != 0 && (m.contains("Ambiguous name") || m.contains("duplicate declarations of prql") || m.contains("expected the output of option")) { "name-prql-clashes-with-the-header-declaration".to_string() } else { k };
            run.violate(
                Some(k),
                format!("program {:?} option#{o} header#{h}: {}", PROGRAMS[p], m.lines().next().unwrap_or("")),
                json!({"driver":"MAT","choices": ch, "program": PROGRAMS[p], "source": with_header(&hdr(h), PROGRAMS[p]), "option": if o == 0 { "absent".to_string() } else { format!("sql.{}", dname(dialects[o-1])) }, "detail": m}),
            );
        }
    }
    // unknown option strings
    for s in ["sql.nosuchdialect", "sqlite", "sql.", "", "SQL.sqlite", "sql.any "] {
        run.validated += 1;
        if Target::from_str(s).is_ok() {
            run.violate(Some("unknown-target-accepted".into()), format!("Target::from_str({s:?}) is Ok"), json!({"driver":"MAT","target_string": s}));
        }
    }
    for d in &dialects {
        run.validated += 1;
        let ok = matches!(Target::from_str(&format!("sql.{}", dname(*d))), Ok(Target::Sql(Some(x))) if x == *d);
        if !ok {
            run.violate(Some("known-target-rejected".into()), format!("Target::from_str(sql.{}) does not give that dialect", dname(*d)), json!({"driver":"MAT","target_string": dname(*d)}));
        }
    }
    // separation: every pair of dialects must be told apart by some program (else the matrix is vacuous)
    let mut unsep = vec![];
    let outs: Vec<Vec<String>> = dialects.iter().map(|d| PROGRAMS.iter().map(|p| format!("{:?}", compile(p, Target::Sql(Some(*d)), false).unwrap_or(Err("panic".into())))).collect()).collect();
    for i in 0..dialects.len() {
        for j in i + 1..dialects.len() {
            if outs[i] == outs[j] {
                unsep.push(format!("{}={}", dname(dialects[i]), dname(dialects[j])));
            }
        }
    }
    run.set("dialect_pairs_not_separated_by_any_program", json!(unsep));
    run.states = cells.len() as u64;
    run.transitions = st.points;
    run.set("bounds", json!({"programs": PROGRAMS.len(), "options": dialects.len() + 1, "headers": dialects.len() + 4, "formats": formats, "matrix_cells": cells.len()}));
    run.set("rule", json!("complete matrix option × header × program; distinct = distinct compile outcomes"));
    run.sample(json!({"source": with_header(&Hdr::Name("sql.mssql".into()), PROGRAMS[1]), "option": "sql.sqlite", "expect": "output of option sql.sqlite"}));
    run.sample(json!({"source": with_header(&Hdr::Name("sql.nosuchdialect".into()), PROGRAMS[0]), "option": "absent", "expect": "Err"}));
    run.assume("compared with signature_comment off (the signature names the option's dialect by design)");
    run.assume("with an explicit option, an unknown header name is overridden like any other header; a header whose value is not a name (`target:5`) is a syntax error in every cell");
    run.finish()
}

pub fn replay(v: &serde_json::Value) -> i32 {
    println!("replay by rerunning: ./check C18 quick (the matrix is complete in both tiers); cell: {}", v["source"]);
    1
}
