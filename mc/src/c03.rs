//! C03 — sort order persists through the pipeline and take selects by position.

use crate::apgen::{GenCfg, Letters, SrcKind};
use crate::model::*;
use crate::relcheck::{Finding, Kind, Outcome};
use crate::relrun::{self, RelSpec};
use crate::report::Tier;

pub fn keyfn(f: &Finding, p: &Program, o: &Outcome) -> Option<String> {
    crate::causes::c01_key(f, p, o).or_else(|| crate::causes::order_key(f, p, o))
}

pub fn spec(tier: Tier) -> RelSpec {
    let mk = |depth, sources: Vec<SrcKind>, max_joins| GenCfg { depth, sources, max_joins, letters: Letters::Order };
    let cfgs = match tier {
        Tier::Quick => vec![
            mk(3, vec![SrcKind::OpenT, SrcKind::LetSorted, SrcKind::SubClosed], 1),
            mk(2, vec![SrcKind::LetSortedTwoReaders], 1),
            // sort / join / take / group interplay at depth 4 over a 9-letter alphabet
            GenCfg { depth: 4, sources: vec![SrcKind::OpenT, SrcKind::LetClosed], max_joins: 1, letters: Letters::OrderSplit },
            // consecutive takes under orders that differ in direction only, with a later grouped aggregate
            GenCfg { depth: 5, sources: vec![SrcKind::OpenT], max_joins: 0, letters: Letters::TakeChain },
        ],
        // depth 4 meets further untriaged defect causes (DESIGN §9.3): thorough widens sources and instances instead
        // (TakeChain at depth 6 puts the limited, grouped, descending SELECT of SQLite's ORDER BY defect *inside* a CTE,
        // where the engine's second opinion does not reach: 48 false alarms; thorough stays at depth 5, more sources)
        Tier::Thorough => vec![mk(3, vec![SrcKind::OpenT, SrcKind::LetSorted, SrcKind::SubClosed, SrcKind::Literal, SrcKind::LetClosed], 1), mk(3, vec![SrcKind::LetSortedTwoReaders], 1), GenCfg { depth: 5, sources: vec![SrcKind::OpenT, SrcKind::LetClosed, SrcKind::LetSorted], max_joins: 1, letters: Letters::OrderSplit }, GenCfg { depth: 5, sources: vec![SrcKind::OpenT, SrcKind::LetClosed, SrcKind::LetSorted], max_joins: 0, letters: Letters::TakeChain }],
    };
    RelSpec {
        property: "C03",
        cfgs,
        exh_depth: tier.pick(1, 2),
        exh_size: (2, 1),
        decides: vec![Kind::Order, Kind::Rows, Kind::EngineReject],
        keyfn,
        extra: None,
    }
}

pub fn run(tier: Tier) -> i32 {
    relrun::run(spec(tier), tier)
}
