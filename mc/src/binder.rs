//! Reference binder over the sqlparser AST (as JSON): scoping of CTEs, FROM aliases, qualified and
//! unqualified column references, projection and set-operation arity. Conservative: a column of
//! a relation whose column list is not known (base table, wildcard) is accepted.

use serde_json::Value as J;

#[derive(Clone, Debug)]
pub struct Rel {
    pub alias: String,
    /// known output columns (None: unknown)
    pub cols: Option<Vec<String>>,
}

#[derive(Default)]
pub struct Binder {
    pub errs: Vec<(String, String)>,
    ctes: Vec<(String, Option<Vec<String>>)>,
    /// compare identifiers case-insensitively (unquoted folding differs per dialect: be lenient)
    pub fold_case: bool,
    /// relations that exist only in the program text (`let` names): the statement must define them itself
    pub program_relations: Vec<String>,
    /// column lists of base tables, when the caller knows the schema (empty: base tables are open)
    pub base_tables: Vec<(String, Vec<String>)>,
    /// T-SQL: there is no RECURSIVE keyword, and every CTE may refer to itself
    pub no_recursive_keyword: bool,
}

fn ident_value(v: &J) -> Option<String> {
    v.get("value").and_then(|x| x.as_str()).map(|s| s.to_string())
}

fn object_name(parts: &J) -> Vec<String> {
    parts
        .as_array()
        .map(|a| a.iter().filter_map(|p| p.get("Identifier").and_then(ident_value)).collect())
        .unwrap_or_default()
}

/// names listed in `* EXCLUDE (…)` / `* EXCEPT (…)`
fn excluded_names(wopts: &J) -> Vec<String> {
    let mut out = vec![];
    for key in ["opt_exclude", "opt_except"] {
        let o = &wopts[key];
        if o.is_null() {
            continue;
        }
        fn walk(v: &J, out: &mut Vec<String>) {
            match v {
                J::Object(m) => {
                    if let (Some(val), true) = (m.get("value").and_then(|x| x.as_str()), m.contains_key("quote_style")) {
                        out.push(val.to_string());
                    } else {
                        m.values().for_each(|x| walk(x, out));
                    }
                }
                J::Array(a) => a.iter().for_each(|x| walk(x, out)),
                _ => {}
            }
        }
        walk(o, &mut out);
    }
    out
}

fn generated_relation_name(n: &str) -> bool {
    n.strip_prefix("table_").map(|d| !d.is_empty() && d.chars().all(|c| c.is_ascii_digit())).unwrap_or(false)
}

impl Binder {
    fn eq(&self, a: &str, b: &str) -> bool {
        if self.fold_case {
            a.eq_ignore_ascii_case(b)
        } else {
            a == b
        }
    }
    fn err(&mut self, key: &str, msg: String) {
        if self.errs.len() < 6 {
            self.errs.push((key.to_string(), msg));
        }
    }

    pub fn statement(&mut self, stmt: &J) {
        match stmt.get("Query") {
            Some(q) => {
                self.query(q, &[]);
            }
            None => self.err("not-a-query", format!("statement is not a query: {}", stmt.to_string().chars().take(80).collect::<String>())),
        }
    }

    /// returns the output columns if known
    fn query(&mut self, q: &J, outer: &[Rel]) -> Option<Vec<String>> {
        let mark = self.ctes.len();
        if let Some(w) = q.get("with").filter(|w| !w.is_null()) {
            let mut recursive = w["recursive"].as_bool().unwrap_or(false);
            if self.no_recursive_keyword {
                if recursive {
                    self.err("dialect-has-no-recursive-keyword", "WITH RECURSIVE: the dialect has no RECURSIVE keyword (a CTE may refer to itself without it)".into());
                }
                recursive = true;
            }
            let mut names_here: Vec<String> = vec![];
            for cte in w["cte_tables"].as_array().cloned().unwrap_or_default() {
                let name = ident_value(&cte["alias"]["name"]).unwrap_or_default();
                if names_here.iter().any(|n| self.eq(n, &name)) {
                    self.err("cte-defined-twice", format!("WITH defines `{name}` twice"));
                }
                names_here.push(name.clone());
                if recursive {
                    self.ctes.push((name.clone(), None));
                }
                let mut cols = self.query(&cte["query"], &[]);
                if recursive {
                    self.ctes.pop();
                }
                let explicit: Vec<String> = cte["alias"]["columns"].as_array().map(|a| a.iter().filter_map(|c| ident_value(&c["name"]).or_else(|| ident_value(c))).collect()).unwrap_or_default();
                if !explicit.is_empty() {
                    cols = Some(explicit);
                }
                self.ctes.push((name, cols));
            }
        }
        let (out, select_scope) = self.set_expr(&q["body"], outer);
        // ORDER BY of the query
        if let Some(ob) = q.get("order_by").filter(|o| !o.is_null()) {
            let exprs: Vec<J> = ob["kind"]["Expressions"].as_array().cloned().unwrap_or_default();
            for e in exprs {
                match &select_scope {
                    Some((rels, proj_aliases)) => self.expr(&e["expr"], rels, outer, proj_aliases, "ORDER BY"),
                    None => {
                        // over a set operation only the output columns are visible
                        if let (Some(cols), Some(id)) = (&out, e["expr"].get("Identifier").and_then(ident_value)) {
                            if !cols.iter().any(|c| self.eq(c, &id)) && id.parse::<i64>().is_err() {
                                self.err("order-by-column-not-in-set-operation-output", format!("ORDER BY {id} over a set operation whose columns are {cols:?}"));
                            }
                        }
                    }
                }
            }
        }
        self.ctes.truncate(mark);
        out
    }

    /// (output columns, Some((from relations, projection aliases)) if the body is a plain SELECT)
    fn set_expr(&mut self, b: &J, outer: &[Rel]) -> (Option<Vec<String>>, Option<(Vec<Rel>, Vec<String>)>) {
        if let Some(s) = b.get("Select") {
            let (cols, rels, aliases) = self.select(s, outer);
            return (cols, Some((rels, aliases)));
        }
        if let Some(q) = b.get("Query") {
            return (self.query(q, outer), None);
        }
        if let Some(so) = b.get("SetOperation") {
            let (l, _) = self.set_expr(&so["left"], outer);
            let (r, _) = self.set_expr(&so["right"], outer);
            if let (Some(l), Some(r)) = (&l, &r) {
                if l.len() != r.len() {
                    self.err("set-operation-arity", format!("{} has {} columns on the left ({l:?}) and {} on the right ({r:?})", so["op"], l.len(), r.len()));
                }
            }
            return (l, None);
        }
        if let Some(v) = b.get("Values") {
            let n = v["rows"].as_array().and_then(|r| r.first()).and_then(|r| r.as_array()).map(|r| r.len());
            return (n.map(|n| (0..n).map(|i| format!("column{}", i + 1)).collect()), None);
        }
        (None, None)
    }

    fn table_factor(&mut self, tf: &J, outer: &[Rel]) -> Option<Rel> {
        if let Some(t) = tf.get("Table") {
            let parts = object_name(&t["name"]);
            let tname = parts.last().cloned().unwrap_or_default();
            let alias = t["alias"].get("name").and_then(ident_value).unwrap_or_else(|| tname.clone());
            if t.get("args").map(|a| !a.is_null()).unwrap_or(false) {
                return Some(Rel { alias, cols: None });
            }
            let mut cols = None;
            let mut found = false;
            if parts.len() == 1 {
                if let Some((_, c)) = self.ctes.iter().rev().find(|(n, _)| self.eq(n, &tname)) {
                    cols = c.clone();
                    found = true;
                }
            }
            if !found && parts.len() == 1 {
                if let Some((_, c)) = self.base_tables.iter().find(|(n, _)| n == &tname) {
                    cols = Some(c.clone());
                }
            }
            if !found && parts.len() == 1 && self.program_relations.iter().any(|n| n == &tname) {
                self.err("program-relation-not-defined-in-statement", format!("FROM {tname}: `{tname}` is a `let` of the program, and no CTE of that name is in scope here"));
            }
            if !found && parts.len() == 1 && generated_relation_name(&tname) {
                self.err("generated-relation-name-not-in-scope", format!("FROM {tname}: no CTE of that name is in scope here"));
            }
            let explicit: Vec<String> = t["alias"]["columns"].as_array().map(|a| a.iter().filter_map(|c| ident_value(&c["name"]).or_else(|| ident_value(c))).collect()).unwrap_or_default();
            if !explicit.is_empty() {
                cols = Some(explicit);
            }
            return Some(Rel { alias, cols });
        }
        if let Some(d) = tf.get("Derived") {
            let cols = self.query(&d["subquery"], if d["lateral"].as_bool().unwrap_or(false) { outer } else { &[] });
            return match d["alias"].get("name").and_then(ident_value) {
                Some(alias) => {
                    let explicit: Vec<String> = d["alias"]["columns"].as_array().map(|a| a.iter().filter_map(|c| ident_value(&c["name"]).or_else(|| ident_value(c))).collect()).unwrap_or_default();
                    Some(Rel { alias, cols: if explicit.is_empty() { cols } else { Some(explicit) } })
                }
                None => {
                    self.err("derived-table-without-alias", "sub-query in FROM has no alias".into());
                    None
                }
            };
        }
        if let Some(nj) = tf.get("NestedJoin") {
            // flatten: handled by caller through table_with_joins
            let mut rels = vec![];
            self.table_with_joins(&nj["table_with_joins"], outer, &mut rels);
            return rels.into_iter().next();
        }
        // table functions, UNNEST, …: a relation with unknown columns
        let alias = tf.as_object().and_then(|o| o.values().next()).and_then(|v| v["alias"].get("name").and_then(ident_value)).unwrap_or_else(|| "?".into());
        Some(Rel { alias, cols: None })
    }

    fn table_with_joins(&mut self, twj: &J, outer: &[Rel], rels: &mut Vec<Rel>) {
        if let Some(r) = self.table_factor(&twj["relation"], outer) {
            rels.push(r);
        }
        for j in twj["joins"].as_array().cloned().unwrap_or_default() {
            if let Some(r) = self.table_factor(&j["relation"], outer) {
                rels.push(r);
            }
        }
    }

    fn select(&mut self, s: &J, outer: &[Rel]) -> (Option<Vec<String>>, Vec<Rel>, Vec<String>) {
        let mut rels: Vec<Rel> = vec![];
        for twj in s["from"].as_array().cloned().unwrap_or_default() {
            self.table_with_joins(&twj, outer, &mut rels);
        }
        for i in 0..rels.len() {
            if rels[i].alias != "?" && rels[..i].iter().any(|r| self.eq(&r.alias, &rels[i].alias)) {
                self.err("duplicate-alias-in-from", format!("the alias `{}` is used for two relations of one SELECT", rels[i].alias));
            }
        }
        let proj = s["projection"].as_array().cloned().unwrap_or_default();
        if proj.is_empty() {
            self.err("empty-projection", "SELECT with an empty projection".into());
        }
        let mut aliases: Vec<String> = vec![];
        for it in &proj {
            if let Some(a) = it.get("ExprWithAlias").and_then(|e| ident_value(&e["alias"])) {
                aliases.push(a);
            }
        }
        // join constraints
        for twj in s["from"].as_array().cloned().unwrap_or_default() {
            for j in twj["joins"].as_array().cloned().unwrap_or_default() {
                if let Some(op) = j["join_operator"].as_object().and_then(|o| o.values().next()) {
                    if let Some(on) = op.get("On") {
                        self.expr(on, &rels, outer, &[], "JOIN ON");
                    }
                }
            }
        }
        let mut out: Option<Vec<String>> = Some(vec![]);
        for it in &proj {
            if let Some(e) = it.get("UnnamedExpr") {
                self.expr(e, &rels, outer, &[], "SELECT");
                let name = e.get("Identifier").and_then(ident_value).or_else(|| e.get("CompoundIdentifier").and_then(|c| c.as_array()).and_then(|a| a.last()).and_then(ident_value));
                match (name, &mut out) {
                    (Some(n), Some(o)) => o.push(n),
                    // an unnamed computed column has a name we do not model
                    (None, Some(o)) => o.push(format!("?column{}", o.len())),
                    _ => {}
                }
            } else if let Some(e) = it.get("ExprWithAlias") {
                self.expr(&e["expr"], &rels, outer, &[], "SELECT");
                if let (Some(a), Some(o)) = (ident_value(&e["alias"]), &mut out) {
                    o.push(a);
                }
            } else if let Some(wopts) = it.get("Wildcard") {
                if rels.is_empty() {
                    self.err("wildcard-without-from", "SELECT * without FROM".into());
                }
                let excl = excluded_names(wopts);
                if rels.iter().all(|r| r.cols.is_some()) && !rels.is_empty() {
                    if let Some(o) = &mut out {
                        for r in &rels {
                            o.extend(r.cols.clone().unwrap().into_iter().filter(|c| !excl.iter().any(|e| e.eq_ignore_ascii_case(c))));
                        }
                    }
                } else {
                    out = None;
                }
            } else if let Some(qw) = it.get("QualifiedWildcard") {
                let q = qw.as_array().and_then(|a| a.first()).map(|k| object_name(&k["ObjectName"])).and_then(|p| p.last().cloned()).unwrap_or_default();
                match rels.iter().chain(outer).find(|r| self.eq(&r.alias, &q)) {
                    None => {
                        self.err("qualifier-not-in-scope", format!("`{q}.*`: no relation `{q}` in this SELECT"));
                        out = None;
                    }
                    Some(r) => match (&r.cols, &mut out) {
                        (Some(c), Some(o)) => {
                            let excl = qw.as_array().and_then(|a| a.get(1)).map(excluded_names).unwrap_or_default();
                            o.extend(c.iter().filter(|c| !excl.iter().any(|e| e.eq_ignore_ascii_case(c))).cloned())
                        }
                        _ => out = None,
                    },
                }
            } else {
                out = None;
            }
        }
        // DISTINCT ON (…) is evaluated in the scope of this SELECT's FROM
        for e in s["distinct"]["On"].as_array().cloned().unwrap_or_default() {
            self.expr(&e, &rels, outer, &aliases, "DISTINCT ON");
        }
        if let Some(sel) = s.get("selection").filter(|x| !x.is_null()) {
            self.expr(sel, &rels, outer, &[], "WHERE");
        }
        for e in s["group_by"]["Expressions"].as_array().and_then(|a| a.first()).and_then(|a| a.as_array()).cloned().unwrap_or_default() {
            self.expr(&e, &rels, outer, &aliases, "GROUP BY");
        }
        if let Some(h) = s.get("having").filter(|x| !x.is_null()) {
            self.expr(h, &rels, outer, &aliases, "HAVING");
        }
        if let Some(qf) = s.get("qualify").filter(|x| !x.is_null()) {
            self.expr(qf, &rels, outer, &aliases, "QUALIFY");
        }
        (out, rels, aliases)
    }

    /// every column reference inside an expression
    fn expr(&mut self, e: &J, rels: &[Rel], outer: &[Rel], also: &[String], ctx: &str) {
        match e {
            J::Object(m) => {
                if let Some(id) = m.get("Identifier").filter(|v| v.get("value").is_some()) {
                    let name = ident_value(id).unwrap_or_default();
                    // prqlc writes function templates through sqlparser identifiers; after re-parsing,
                    // an identifier is a real one. Check it only where every relation is known.
                    let all_known = !rels.is_empty() && rels.iter().all(|r| r.cols.is_some()) && outer.iter().all(|r| r.cols.is_some());
                    if all_known {
                        let hit = rels.iter().chain(outer).any(|r| r.cols.as_ref().unwrap().iter().any(|c| self.eq(c, &name))) || also.iter().any(|a| self.eq(a, &name));
                        let constant_like = id["quote_style"].is_null() && name.chars().all(|c| c.is_ascii_uppercase() || c == '_');
                        if !hit && !constant_like {
                            self.err("unknown-column-in-fully-known-select", format!("{ctx}: `{name}` is not a column of {:?}", rels.iter().map(|r| (r.alias.clone(), r.cols.clone().unwrap())).collect::<Vec<_>>()));
                        }
                    }
                    return;
                }
                if let Some(parts) = m.get("CompoundIdentifier").and_then(|p| p.as_array()) {
                    let names: Vec<String> = parts.iter().filter_map(ident_value).collect();
                    if names.len() >= 2 {
                        let q = &names[names.len() - 2];
                        let c = &names[names.len() - 1];
                        match rels.iter().chain(outer).find(|r| self.eq(&r.alias, q)) {
                            None => self.err("qualifier-not-in-scope", format!("{ctx}: `{}`: no relation `{q}` in scope (relations: {:?})", names.join("."), rels.iter().map(|r| r.alias.clone()).collect::<Vec<_>>())),
                            Some(r) => {
                                if let Some(cols) = &r.cols {
                                    if !cols.iter().any(|x| self.eq(x, c)) && c != "*" {
                                        self.err("column-not-in-known-relation", format!("{ctx}: `{q}.{c}` but `{q}` has the columns {cols:?}"));
                                    }
                                }
                            }
                        }
                    }
                    return;
                }
                for (k, v) in m {
                    match k.as_str() {
                        // not column references
                        "name" | "alias" | "data_type" | "Value" | "TypedString" | "collation" | "field" | "leading_field" | "last_field" | "window_name" | "format" | "null_treatment" | "parameters" => {}
                        "Subquery" => {
                            self.query(v, rels);
                        }
                        "subquery" => {
                            self.query(v, rels);
                        }
                        _ => self.expr(v, rels, outer, also, ctx),
                    }
                }
            }
            J::Array(a) => a.iter().for_each(|x| self.expr(x, rels, outer, also, ctx)),
            _ => {}
        }
    }
}

pub fn sqlparser_dialect(d: prqlc::sql::Dialect) -> Box<dyn sqlparser::dialect::Dialect> {
    use prqlc::sql::Dialect;
    use sqlparser::dialect as sd;
    match d {
        Dialect::Ansi => Box::new(sd::AnsiDialect {}),
        Dialect::BigQuery => Box::new(sd::BigQueryDialect {}),
        Dialect::ClickHouse => Box::new(sd::ClickHouseDialect {}),
        Dialect::DuckDb => Box::new(sd::DuckDbDialect {}),
        Dialect::Generic => Box::new(sd::GenericDialect {}),
        Dialect::GlareDb | Dialect::Postgres => Box::new(sd::PostgreSqlDialect {}),
        Dialect::MsSql => Box::new(sd::MsSqlDialect {}),
        Dialect::MySql => Box::new(sd::MySqlDialect {}),
        Dialect::Redshift => Box::new(sd::RedshiftSqlDialect {}),
        Dialect::SQLite => Box::new(sd::SQLiteDialect {}),
        Dialect::Snowflake => Box::new(sd::SnowflakeDialect {}),
    }
}

/// parse (dialect grammar) + bind; returns (key, message) of every failed clause
pub fn check_sql(sql: &str, d: prqlc::sql::Dialect) -> Vec<(String, String)> {
    check_sql_with(sql, d, &[])
}

/// names of the top-level `let` relations of a PRQL source (not functions, not names that are also read as
/// a database table of the same name by the program)
pub fn let_relations(src: &str) -> Vec<String> {
    let mut out = vec![];
    for line in src.lines() {
        let Some(rest) = line.strip_prefix("let ") else { continue };
        let Some((name, rhs)) = rest.split_once('=') else { continue };
        let name = name.trim();
        let rhs = rhs.trim_start();
        if name.is_empty() || !name.chars().all(|c| c.is_ascii_alphanumeric() || c == '_') || rhs.starts_with("func") || rhs.starts_with('<') {
            continue;
        }
        // only relation-valued lets: a pipeline in parentheses, an array literal or an s-string
        if rhs.starts_with('(') || rhs.starts_with('[') || rhs.starts_with("s\"") || rhs.is_empty() {
            out.push(name.to_string());
        }
    }
    out
}

/// Column names the statement returns, given the column lists of the base tables; None when they cannot be
/// derived (unparseable text, an open relation without schema, a construct the binder does not model).
pub fn output_columns(sql: &str, d: prqlc::sql::Dialect, schema: &[(&str, &[&str])]) -> Option<Vec<String>> {
    let dial = sqlparser_dialect(d);
    let stmts = sqlparser::parser::Parser::parse_sql(&*dial, sql).ok()?;
    if stmts.len() != 1 {
        return None;
    }
    let v = serde_json::to_value(&stmts[0]).ok()?;
    let mut b = Binder { fold_case: true, base_tables: schema.iter().map(|(n, c)| (n.to_string(), c.iter().map(|x| x.to_string()).collect())).collect(), no_recursive_keyword: d == prqlc::sql::Dialect::MsSql, ..Default::default() };
    b.query(v.get("Query")?, &[])
}

pub fn check_sql_with(sql: &str, d: prqlc::sql::Dialect, lets: &[String]) -> Vec<(String, String)> {
    let dial = sqlparser_dialect(d);
    let stmts = match sqlparser::parser::Parser::parse_sql(&*dial, sql) {
        Ok(s) => s,
        Err(e) => return vec![("does-not-parse".into(), e.to_string())],
    };
    if stmts.len() != 1 {
        return vec![("not-exactly-one-statement".into(), format!("{} statements", stmts.len()))];
    }
    let v = match serde_json::to_value(&stmts[0]) {
        Ok(v) => v,
        Err(e) => return vec![("machinery".into(), e.to_string())],
    };
    let mut b = Binder { fold_case: true, program_relations: lets.to_vec(), no_recursive_keyword: d == prqlc::sql::Dialect::MsSql, ..Default::default() };
    b.statement(&v);
    b.errs
}

#[cfg(test)]
mod tests {
    use super::*;
    use prqlc::sql::Dialect::Generic;
    #[test]
    fn accepts_and_rejects() {
        assert!(check_sql("WITH a AS (SELECT x, y FROM t) SELECT a.x FROM a JOIN u ON a.y = u.y", Generic).is_empty());
        assert_eq!(check_sql("WITH a AS (SELECT x, y FROM t) SELECT a.z FROM a", Generic)[0].0, "column-not-in-known-relation");
        assert_eq!(check_sql("SELECT t.x FROM u", Generic)[0].0, "qualifier-not-in-scope");
        assert_eq!(check_sql("SELECT x FROM table_3", Generic)[0].0, "generated-relation-name-not-in-scope");
        assert_eq!(check_sql("WITH a AS (SELECT x FROM t) SELECT x FROM a UNION ALL SELECT 1, 2", Generic)[0].0, "set-operation-arity");
        assert_eq!(check_sql("SELECT 1 FROM t AS a JOIN u AS a ON true", Generic)[0].0, "duplicate-alias-in-from");
        assert_eq!(check_sql("WITH a AS (SELECT x FROM t) SELECT q FROM a", Generic)[0].0, "unknown-column-in-fully-known-select");
    }
}
