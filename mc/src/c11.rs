//! C11 — compilation is a pure function of source tree and options.
//!
//! Four explorations, all observing the bytes of compile (SQL or rendered error), the RQ JSON and
//! the formatter output for a probe set chosen so that every candidate map has >= 2 entries:
//!  1. HO  — hash-iteration order (seam H): every iteration of a hash collection is a choice point;
//!           all executions with <= d sites deviating from the baseline order, all permutations.
//!  2. HIS — call histories: every sequence of process-level calls up to a depth, each in a fresh
//!           process, after which the probe set must still give the initial outputs.
//!  3. MAT — every enumeration order of the files of multi-file projects.
//!  4. free-running threads (cross-check only, not the deciding step).

use crate::iso::guard;
use crate::relcheck::err_text;
use crate::report::{fnv, nthreads, par_map, Run, Tier};
use prqlc::sql::Dialect;
use prqlc::{Options, SourceTree, Target};
use serde_json::{json, Value as J};
use std::cell::RefCell;
use std::path::PathBuf;
use std::rc::Rc;

/// probes: each makes some hash collection hold >= 2 entries on an output-relevant path
pub const PROBES: &[&str] = &[
    // two instances of one CTE, two let-tables
    "let q = (from t | select {a, b})\nlet w = (from u | select {a, d})\nfrom q | join l=q (==a) | join w (q.a == w.a) | select {q.b, l.b, w.d}",
    // named arguments (2 and 3), formatter and resolver
    "let f = x y:1 z:2 w:3 -> x + y + z + w\nfrom t | derive {r = f a z:5 y:4, s = f b w:1 y:2 z:3}",
    // unknown named arguments: error text
    "from t | derive r = (math.abs zeta:1 alpha:2 beta:3 a)",
    // unknown name: available-columns hint, several candidates
    "from t | select {a, b, c} | join u (==a) | filter nosuch > 1",
    // ambiguity: several candidates listed
    "from t | select {a, b} | join r=(from u | select {a, b}) (==a) | join s=(from u | select {a, b}) (t.a == s.a) | filter b > 1",
    // two joined inputs with inferred columns
    "from t | join u (==a) | join v (t.b == v.b) | select {t.c, u.d, v.e} | sort {u.d, -v.e} | take 3",
    // group / window / sort helper columns, several splits
    "from t | derive {x = a + b, y = a - b} | sort {x, -y} | take 5 | group {x} (sort y | take 1) | filter y > 0 | select {x, y, a}",
    // set operations and append of several relations
    "from t | select {a, b} | append (from u | select {a, d}) | remove (from v | select {a, e}) | group {a, b} (take 1)",
    // header with two options, signature comment
    "prql target:sql.postgres version:\"0.13\"\nfrom t | select {a, s = f\"{a}-{b}\"} | take 2",
    // module paths and several declarations
    "module m1 { let a1 = 1\n let a2 = 2 }\nmodule m2 { let b1 = 3 }\nfrom t | derive {x = m1.a1 + m1.a2 + m2.b1}",
    // case, in, aggregates with several named columns
    "from t | group {a, b} (aggregate {n = count this, s = sum c, m = max c, v = average c}) | filter n > 1 && s > 2",
    // error in the SQL stage
    "prql target:sql.sqlite\nfrom t | select {x = (a | date.to_text \"%Y\")}",
    // lexer / parser errors (several at once)
    "from t | select {a, b = } | filter (a > ",
    // excluded columns over a known relation
    "from t | select {a, b, c, d} | select !{b, d} | derive e = a + c",
    // loop and relation literal
    "from [{a = 1, b = 2}, {a = 3, b = 4}] | loop (filter a < 5 | select {a = a + 1, b})",
    // two relations of the same name (modules), both reaching SQL: which keeps the name?
    "module ma { let x = (from t | take 5) }\nmodule mb { let x = (from u | take 7) }\nfrom p = ma.x | join r = mb.x (==a) | select {p.a, r.d}",
    // a let-table named like a database table of the same query
    "module mm { let t = (from src | take 3) }\nfrom t | join l = mm.t (==a) | select {t.a, l.b}",
    // three same-named relations and a generated one
    "module ma { let x = (from t | take 5) }\nmodule mb { let x = (from u | take 7) }\nmodule mc { let x = (from v | take 9) }\nfrom ma.x | append mb.x | append mc.x | sort a | take 2 | filter a > 1",
    // wildcard over two inferred inputs plus a computed column
    "from t | join u (==a) | select {x = 1, t.a, u.d} | select {this.*}",
    "from t | join u (==a) | derive {x = t.b + u.d} | select {this.*} | sort x",
    // s-strings with several arguments
    "from t | select {x = s\"F({a}, {b}, {c})\", y = s\"G({c}, {a})\"} | filter x > y",
    // two aliases of the column the relation is sorted by: which one names the final ORDER BY?
    "from t | sort a | derive {b2 = a, c2 = a} | select {b2, c2} | take 5",
    "from t | sort {a, -b} | derive {x = a, y = b, z = a} | select {z, y, x} | take 5 | filter x > 0",
    // one sorted let-table read twice, its sort key dropped by its select: which instance carries the hidden key?
    "let s = (from t | derive k = a * 2 | sort {-k} | select {a, b})\nfrom s | join s2 = s (s.a == s2.b) | select {s.a, s2.b} | take 4",
    "let s = (from t | derive k = a * 2 | sort {-k} | select {a, b})\nfrom x = s | join y = s (x.a == y.b) | join z = s (x.a == z.b) | select {x.a, y.b, z.b} | take 4 | filter a > 0",
    // no main pipeline, several named ones: error text (hints that list declarations)
    "let pa = (from t1 | take 1)\nlet pb = (from t2 | take 2)\nlet pc = (from t3 | take 3)\nlet pd = (from t4)",
    "module m { let pa = (from t1)\n let pb = (from t2) }\nlet pc = (from t3)\nlet pd = 5",
    // two / three unknown header options: error text
    "prql foo:1 bar:2\nfrom t",
    "prql zeta:\"z\" alpha:1 target:sql.sqlite mid:2\nfrom t",
];

#[derive(Clone, Debug, PartialEq)]
pub struct Obs {
    pub sql: String,
    pub rq: String,
    pub fmt: String,
}

pub fn observe(src: &str) -> Obs {
    let o = Options::default().no_format().with_signature_comment(false).with_display(prqlc::DisplayOptions::Plain);
    let sql = match guard(|| prqlc::compile(src, &o)) {
        Ok(Ok(s)) => format!("OK {s}"),
        Ok(Err(e)) => format!("ERR {}", e.inner.iter().map(|m| format!("{}|{:?}|{:?}|{}", m.reason, m.hints, m.span, m.display.clone().unwrap_or_default())).collect::<Vec<_>>().join("\n")),
        Err(p) => format!("PANIC {} {}", p.site, p.msg),
    };
    let (rq, fmt) = match guard(|| prqlc::prql_to_pl(src)) {
        Ok(Ok(pl)) => {
            let fmt = match guard(|| prqlc::pl_to_prql(&pl)) {
                Ok(Ok(s)) => s,
                Ok(Err(e)) => format!("ERR {}", err_text(&e)),
                Err(p) => format!("PANIC {}", p.site),
            };
            let rq = match guard(|| prqlc::pl_to_rq(pl)) {
                Ok(Ok(rq)) => prqlc::json::from_rq(&rq).unwrap_or_default(),
                Ok(Err(e)) => format!("ERR {}", err_text(&e)),
                Err(p) => format!("PANIC {}", p.site),
            };
            (rq, fmt)
        }
        _ => (String::new(), String::new()),
    };
    Obs { sql, rq, fmt }
}

// ------------------------------------------------------------------ 1. hash order

#[cfg(prqlc_verif)]
mod ho {
    use super::*;
    use prqlc_parser::verif_hash::{perm_count, set_order_oracle};

    struct Script {
        /// (position, permutation number) deviations to apply; everything else is baseline
        devs: Vec<(usize, usize)>,
        /// global policy instead of a script: 1 = reverse everywhere, 2 = rotate by one everywhere, 3 = last permutation everywhere
        policy: u8,
        trace: Vec<(String, usize)>,
    }

    /// run `f` under an order script; returns the observation and the trace of iteration points
    pub fn run_with<T>(devs: &[(usize, usize)], policy: u8, f: impl FnOnce() -> T) -> (T, Vec<(String, usize)>) {
        let st = Rc::new(RefCell::new(Script { devs: devs.to_vec(), policy, trace: vec![] }));
        let st2 = st.clone();
        set_order_oracle(Some(Box::new(move |loc, n| {
            let mut s = st2.borrow_mut();
            let pos = s.trace.len();
            s.trace.push((format!("{}:{}", loc.file().rsplit("/src/").next().unwrap_or(loc.file()), loc.line()), n));
            match s.policy {
                1 => {
                    if n <= 4 {
                        perm_count(n) - 1
                    } else {
                        n
                    }
                }
                2 => {
                    if n <= 4 {
                        // rotate-left by one as a permutation number is not uniform: use the second permutation
                        1
                    } else {
                        1
                    }
                }
                3 => perm_count(n) / 2,
                _ => s.devs.iter().find(|(p, _)| *p == pos).map(|(_, k)| *k).unwrap_or(0),
            }
        })));
        let r = f();
        set_order_oracle(None);
        let tr = st.borrow().trace.clone();
        (r, tr)
    }

    pub struct HoOut {
        pub executions: u64,
        pub points: usize,
        pub sites: std::collections::BTreeSet<String>,
        pub perms_exercised: u64,
        pub bad: Vec<(String, String)>,
        pub replay_diverged: bool,
        /// the pair level (two simultaneous deviations) stopped at the execution cap: single deviations are
        /// complete, pairs are complete for first positions below this index
        pub pairs_capped_at: Option<usize>,
    }

    /// executions one (probe, observable) job may spend
    pub const EXEC_CAP: u64 = 60_000;

    pub fn explore_probe(src: &str, max_devs: usize, what: u8) -> HoOut {
        explore(
            &|| {
                let o = observe(src);
                match what {
                    0 => o.sql,
                    1 => o.rq,
                    _ => o.fmt,
                }
            },
            max_devs,
        )
    }

    /// the same exploration for any observation (multi-file projects)
    pub fn explore(observe_once: &dyn Fn() -> String, max_devs: usize) -> HoOut {
        let src = ();
        let obs = |_: ()| -> String { observe_once() };
        let (base, t0) = run_with(&[], 0, || obs(src));
        // own the choices: the baseline run twice must give the same trace and observation
        let (base2, t0b) = run_with(&[], 0, || obs(src));
        let mut out = HoOut { executions: 2, points: t0.len(), sites: t0.iter().map(|(s, _)| s.clone()).collect(), perms_exercised: 0, bad: vec![], replay_diverged: base != base2 || t0 != t0b, pairs_capped_at: None };
        if out.replay_diverged {
            return out;
        }
        // global policies
        for pol in 1..=3u8 {
            let (o, _) = run_with(&[], pol, || obs(src));
            out.executions += 1;
            if o != base {
                out.bad.push((format!("policy-{pol}"), first_diff(&base, &o)));
            }
        }
        // d = 1: every point, every non-baseline permutation
        let mut level: Vec<(Vec<(usize, usize)>, Vec<(String, usize)>)> = vec![(vec![], t0.clone())];
        for d in 1..=max_devs {
            let mut next = vec![];
            for (devs, trace) in &level {
                if d >= 2 && out.executions > EXEC_CAP {
                    out.pairs_capped_at = Some(devs.first().map(|(p, _)| *p).unwrap_or(0));
                    break;
                }
                let start = devs.last().map(|(p, _)| p + 1).unwrap_or(0);
                for pos in start..trace.len() {
                    let n = trace[pos].1;
                    for k in 1..perm_count(n) {
                        let mut dv = devs.clone();
                        dv.push((pos, k));
                        let (o, tr) = run_with(&dv, 0, || obs(src));
                        out.executions += 1;
                        out.perms_exercised += 1;
                        if o != base {
                            if out.bad.len() < 10 {
                                out.bad.push((trace[pos].0.clone(), format!("order #{k} of {n} entries at {} (iteration point {pos}): {}", trace[pos].0, first_diff(&base, &o))));
                            }
                        }
                        if d < max_devs {
                            next.push((dv, tr));
                        }
                    }
                }
            }
            level = next;
        }
        out
    }

    fn first_diff(a: &str, b: &str) -> String {
        let i = a.chars().zip(b.chars()).position(|(x, y)| x != y).unwrap_or(a.len().min(b.len()));
        let ctx = |s: &str| s.chars().skip(i.saturating_sub(30)).take(90).collect::<String>();
        format!("baseline …{}… vs …{}…", ctx(a), ctx(b))
    }
}

// ------------------------------------------------------------------ 2. histories (fresh process each)

pub const LETTERS: &[&str] = &[
    "compile-ok", "compile-ok-other-dialect", "compile-lex-error", "compile-resolve-error", "compile-sql-error", "compile-panicking-input", "log-start", "log-finish", "logged-compile", "version-override-toggle",
    // the dialect-sensitive program under four dialects whose keyword sets and quoting rules differ
    "compile-names-redshift", "compile-names-postgres", "compile-names-mssql", "compile-names-bigquery", "compile-names-mysql",
];

/// identifiers that are reserved words in some dialects only, a name needing quotes, dialect-specific operators
/// (operators whose SQL template — and binding strength — differs between dialects, each also as the right operand of
/// another operator, where the parentheses depend on that strength)
const DIALECT_SENSITIVE: &str = "from logs | select {host, tag, percent, identity, `system`, `user`, `my col`, x = a // b, y = c % (a // b), z = c * (a % b), w = c - (a // b) - (a % b), v = c / (a % b) // (a + b), ok = (all_ok | as bool) && (a % b) == 0} | filter tag == 'x' | sort {-percent} | take 3";

fn names_probe_dialects() -> Vec<Dialect> {
    vec![Dialect::Generic, Dialect::Postgres, Dialect::Redshift, Dialect::MsSql, Dialect::BigQuery, Dialect::SQLite, Dialect::MySql, Dialect::Snowflake, Dialect::DuckDb, Dialect::ClickHouse, Dialect::Ansi, Dialect::GlareDb]
}

fn apply_letter(l: &str) {
    let o = Options::default();
    match l {
        "compile-ok" => {
            let _ = guard(|| prqlc::compile(PROBES[0], &o));
        }
        "compile-ok-other-dialect" => {
            let _ = guard(|| prqlc::compile(PROBES[6], &o.clone().with_target(Target::Sql(Some(Dialect::MsSql)))));
        }
        "compile-lex-error" => {
            let _ = guard(|| prqlc::compile("from t | select {a ^ b}", &o));
        }
        "compile-resolve-error" => {
            let _ = guard(|| prqlc::compile(PROBES[3], &o));
        }
        "compile-sql-error" => {
            let _ = guard(|| prqlc::compile(PROBES[11], &o));
        }
        "compile-panicking-input" => {
            // a known panicking input (C12): resolver error behind a multi-byte character
            let _ = guard(|| prqlc::compile("# ééééééééééééééééééééé\nfrom t | select {a} | filter zz > 1", &o));
            let _ = guard(|| prqlc::compile("from t | select {a, b} | sort {a} | take 1 | group {b} (aggregate {n = count this})", &o));
        }
        "log-start" => {
            let _ = guard(prqlc::debug::log_start);
        }
        "log-finish" => {
            let _ = guard(prqlc::debug::log_finish);
        }
        "logged-compile" => {
            let _ = guard(prqlc::debug::log_start);
            let _ = guard(|| prqlc::compile(PROBES[1], &o));
            let _ = guard(prqlc::debug::log_finish);
        }
        "compile-names-redshift" | "compile-names-postgres" | "compile-names-mssql" | "compile-names-bigquery" | "compile-names-mysql" => {
            let d = match l {
                "compile-names-redshift" => Dialect::Redshift,
                "compile-names-postgres" => Dialect::Postgres,
                "compile-names-mssql" => Dialect::MsSql,
                "compile-names-mysql" => Dialect::MySql,
                _ => Dialect::BigQuery,
            };
            let _ = guard(|| prqlc::compile(DIALECT_SENSITIVE, &o.clone().with_target(Target::Sql(Some(d)))));
        }
        "version-override-toggle" => {
            std::env::set_var("PRQL_VERSION_OVERRIDE", "9.9.9");
            let _ = guard(|| prqlc::compile(PROBES[8], &o));
            std::env::remove_var("PRQL_VERSION_OVERRIDE");
        }
        _ => {}
    }
}

/// output of probe #k alone (used by `c11w --probe k`: a process that has done nothing else)
pub fn single_probe(k: usize) -> String {
    probe_outputs_sel(Some(k)).into_iter().next().unwrap_or_default()
}

fn probe_outputs() -> Vec<String> {
    probe_outputs_sel(None)
}

fn probe_outputs_sel(only: Option<usize>) -> Vec<String> {
    // a small probe set incl. the signature comment (compiler version) and an error
    let o = Options::default().with_display(prqlc::DisplayOptions::Plain);
    let mut jobs: Vec<(&str, Options)> = [PROBES[0], PROBES[3], PROBES[8], PROBES[1]].iter().map(|p| (*p, o.clone())).collect();
    // the dialect-sensitive program under every dialect
    for d in names_probe_dialects() {
        jobs.push((DIALECT_SENSITIVE, o.clone().with_target(Target::Sql(Some(d)))));
    }
    jobs.iter()
        .enumerate()
        .filter(|(k, _)| only.map(|x| x == *k).unwrap_or(true))
        .map(|(_, (p, od))| match guard(|| prqlc::compile(p, od)) {
            Ok(Ok(s)) => s,
            Ok(Err(e)) => format!("ERR {e}"),
            Err(p) => format!("PANIC at {}: {}", p.site, p.msg),
        })
        .collect()
}

/// `mc c11w <letter>…` : fresh process; prints JSON {initial, after: [...]} of probe outputs
pub const N_HISTORY_PROBES: usize = 16;

pub fn worker(args: &[String]) -> i32 {
    if args.first().map(|s| s.as_str()) == Some("--probe") {
        let k: usize = args.get(1).and_then(|s| s.parse().ok()).unwrap_or(0);
        println!("{}", json!({"probe": single_probe(k)}));
        return 0;
    }
    let initial = probe_outputs();
    let mut after = vec![];
    for l in args {
        apply_letter(l);
        after.push(probe_outputs());
    }
    println!("{}", json!({"initial": initial, "after": after}));
    0
}

// ------------------------------------------------------------------ 3. file enumeration orders

fn projects() -> Vec<Vec<(&'static str, &'static str)>> {
    vec![
        vec![("Main.prql", "from t | derive x = helpers.double a | select {x}"), ("helpers.prql", "let double = v -> v * 2")],
        vec![("Main.prql", "from q.base | join other.u2 (==a) | select {base.a, u2.d}"), ("q.prql", "let base = (from t | select {a, b})"), ("other.prql", "let u2 = (from u | select {a, d})")],
        vec![("Main.prql", "from a.t1 | derive z = b.k + c.k"), ("a.prql", "let t1 = (from t | select {x})"), ("b.prql", "let k = 1"), ("c.prql", "let k = 2")],
        // a module that uses a sibling module (in both alphabetical directions)
        vec![("Main.prql", "from reports.recent | select {a}"), ("base.prql", "let old = (from t | filter b > 2000)"), ("reports.prql", "let recent = (from base.old | select {a, b})")],
        vec![("Main.prql", "from aa.recent | select {a}"), ("zz.prql", "let old = (from t | filter b > 2000)"), ("aa.prql", "let recent = (from zz.old | select {a, b})"), ("mm.prql", "let k = 1")],
        // syntax errors in two sibling modules
        vec![("Main.prql", "from t"), ("one.prql", "let x = = 1"), ("two.prql", "let y = (from t | select {a,, b})")],
        // an error in one module
        vec![("Main.prql", "from t | derive x = helpers.double a"), ("helpers.prql", "let double = v -> v * nosuch"), ("zz.prql", "let unused = 1")],
        // two files whose names start with an uppercase letter: which one is the root?
        vec![("Alpha.prql", "from alpha_table | take 1"), ("Beta.prql", "from beta_table | take 2"), ("helpers.prql", "let k = 1")],
        vec![("Zeta.prql", "from zeta_table"), ("Alpha.prql", "let k = 2"), ("Main.prql", "from main_table")],
        // a syntax error in one module and one in the root
        vec![("Main.prql", "from t | select {a, }}"), ("helpers.prql", "let double = = 2"), ("more.prql", "let x = 1")],
    ]
}

fn compile_tree(files: &[(&str, &str)]) -> String {
    let tree = SourceTree::new(files.iter().map(|(p, c)| (PathBuf::from(p), c.to_string())), None);
    let r = guard(|| {
        let pl = prqlc::prql_to_pl_tree(&tree)?;
        let rq = prqlc::pl_to_rq_tree(pl, &[], &[]).map_err(|e| e.composed(&tree))?;
        prqlc::rq_to_sql(rq, &Options::default().no_format().no_signature().with_display(prqlc::DisplayOptions::Plain)).map_err(|e| e.composed(&tree))
    });
    match r {
        Ok(Ok(s)) => format!("OK {s}"),
        // the rendered text names file and line; source ids are an artefact of the enumeration
        Ok(Err(e)) => format!("ERR {}", e.inner.iter().map(|m| format!("{}|{:?}|{}", m.reason, m.hints, m.display.clone().unwrap_or_default())).collect::<Vec<_>>().join("\n")),
        Err(p) => format!("PANIC {} {}", p.site, p.msg),
    }
}

fn permutations<T: Clone>(v: &[T]) -> Vec<Vec<T>> {
    if v.len() <= 1 {
        return vec![v.to_vec()];
    }
    let mut out = vec![];
    for i in 0..v.len() {
        let mut rest = v.to_vec();
        let x = rest.remove(i);
        for mut p in permutations(&rest) {
            p.insert(0, x.clone());
            out.push(p);
        }
    }
    out
}

// ------------------------------------------------------------------ run

pub fn run(tier: Tier) -> i32 {
    let mut run = Run::new("C11", tier);

    // ---- 1. hash order
    #[cfg(prqlc_verif)]
    {
        let max_devs = tier.pick(1, 2);
        // (probe, observable): SQL/error text for every probe, RQ and formatter output where they exist
        let nprobes = PROBES.len();
        let jobs: Vec<(usize, u8)> = (0..nprobes).flat_map(|i| [(i, 0u8), (i, 1u8), (i, 2u8)]).collect();
        // two simultaneous deviations only for the SQL / error text (the RQ and formatter runs see a subset of
        // the same iteration points): the pair space is quadratic in the number of points
        // … and only for the first 10 probes, the ones built around several multi-entry maps
        let outs = par_map(&jobs, || (), |_, (i, what)| ho::explore_probe(PROBES[*i], if *what == 0 && *i < 10 { max_devs } else { 1 }, *what));
        let mut all_sites = std::collections::BTreeSet::new();
        for ((i, what), o) in jobs.iter().zip(outs) {
            if o.replay_diverged {
                eprintln!("MACHINERY ERROR: the baseline run of probe {i} is not reproducible: the harness does not own every choice");
                return 2;
            }
            run.validated += o.executions;
            run.count("hash_order:executions", o.executions);
            run.count("hash_order:iteration_points_in_baseline_runs", o.points as u64);
            run.count("hash_order:permutations_exercised", o.perms_exercised);
            if let Some(k) = o.pairs_capped_at {
                run.count("hash_order:jobs_whose_pair_level_hit_the_execution_cap", 1);
                run.assume(&format!("probe #{i}: pairs of deviations explored completely only for first positions < {k} of {} (cap {} executions); single deviations complete", o.points, ho::EXEC_CAP));
            }
            all_sites.extend(o.sites);
            run.observe(fnv(&format!("ho{i}{what}{}", o.points)));
            for (site, why) in o.bad {
                run.violate(
                    Some(format!("output-depends-on-hash-order@{site}")),
                    format!("[{}] probe #{i}: {why}", ["sql/error text", "rq", "formatter"][*what as usize]),
                    json!({"driver":"HO","probe": PROBES[*i], "observable": what, "site": site, "detail": why}),
                );
            }
        }
        // the multi-file projects under the same exploration (the files of a project live in a hash map)
        let projs = projects();
        let pouts = par_map(&projs, || (), |_, files| ho::explore(&|| compile_tree(files), 1));
        for (pi, o) in pouts.into_iter().enumerate() {
            if o.replay_diverged {
                eprintln!("MACHINERY ERROR: the baseline run of project {pi} is not reproducible: the harness does not own every choice");
                return 2;
            }
            run.validated += o.executions;
            run.count("hash_order:executions", o.executions);
            run.count("hash_order:project_executions", o.executions);
            run.count("hash_order:permutations_exercised", o.perms_exercised);
            all_sites.extend(o.sites);
            for (site, why) in o.bad {
                run.violate(
                    Some(format!("output-depends-on-hash-order@{site}")),
                    format!("[project #{pi}: {:?}] {why}", projs[pi].iter().map(|f| f.0).collect::<Vec<_>>()),
                    json!({"driver":"HO-project","project": pi, "files": projs[pi], "site": site, "detail": why}),
                );
            }
        }
        run.count("hash_order:distinct_iteration_sites", all_sites.len() as u64);
        run.set("hash_order_sites", json!(all_sites));
        let _ = max_devs;
    }
    #[cfg(not(prqlc_verif))]
    {
        eprintln!("MACHINERY ERROR: built without --cfg prqlc_verif: the hash-order seam is missing");
        return 2;
    }

    // ---- 2. histories, each in a fresh process
    let depth = tier.pick(2, 3);
    let mut hists: Vec<Vec<&str>> = vec![vec![]];
    let mut frontier: Vec<Vec<&str>> = vec![vec![]];
    for _ in 0..depth {
        let mut next = vec![];
        for h in &frontier {
            for l in LETTERS {
                let mut h2 = h.clone();
                h2.push(*l);
                next.push(h2);
            }
        }
        hists.extend(next.clone());
        frontier = next;
    }
    // only maximal histories need a process: every prefix is observed on the way
    let exe = crate::report::worker_exe();
    // reference: every probe in a process of its own (no earlier call of any kind, on any thread)
    let reference: Vec<String> = par_map(&(0..N_HISTORY_PROBES).collect::<Vec<_>>(), || (), |_, k| {
        let o = std::process::Command::new(&exe).args(["c11w", "--probe", &k.to_string()]).env_remove("PRQL_VERSION_OVERRIDE").stderr(std::process::Stdio::null()).output();
        o.ok().and_then(|o| String::from_utf8_lossy(&o.stdout).lines().filter_map(|l| serde_json::from_str::<J>(l).ok()).last()).and_then(|v| v["probe"].as_str().map(|s| s.to_string())).unwrap_or_else(|| "<probe process failed>".into())
    });
    if reference.iter().skip(4).all(|r| r.starts_with("ERR") || r.starts_with("PANIC")) {
        eprintln!("MACHINERY ERROR: the dialect-sensitive probe compiles for no dialect: {}", reference[4].chars().take(300).collect::<String>());
        return 2;
    }
    if reference.len() != probe_outputs().len() {
        eprintln!("MACHINERY ERROR: N_HISTORY_PROBES does not match the probe list");
        return 2;
    }
    let outs = par_map(&frontier, || (), |_, h| {
        let o = std::process::Command::new(&exe).arg("c11w").args(h.iter()).env_remove("PRQL_VERSION_OVERRIDE").stderr(std::process::Stdio::null()).output();
        match o {
            Ok(o) => {
                let v: Option<J> = String::from_utf8_lossy(&o.stdout).lines().filter_map(|l| serde_json::from_str(l).ok()).last();
                (v, format!("{:?}", o.status))
            }
            Err(e) => (None, e.to_string()),
        }
    });
    let mut first_reported: std::collections::BTreeSet<String> = Default::default();
    for (h, (v, status)) in frontier.iter().zip(outs) {
        run.count("histories:processes", 1);
        let Some(v) = v else {
            run.violate(Some("process-died-in-history".into()), format!("history {h:?}: worker died ({status})"), json!({"driver":"HIS","history": h}));
            continue;
        };
        let initial: Vec<String> = v["initial"].as_array().map(|a| a.iter().map(|x| x.as_str().unwrap_or("").to_string()).collect()).unwrap_or_default();
        if initial != reference {
            // the probes of one process run one after the other: an output that differs from the one a process
            // gives when it runs that probe alone depends on the probes before it
            let k = initial.iter().zip(&reference).position(|(a, b)| a != b).unwrap_or(0);
            if first_reported.insert(format!("probe-sequence{k}")) {
                run.violate(
                    Some(format!("outputs-depend-on-history:probe-sequence-before-probe-{k}")),
                    format!("probe #{k} run after probes #0..#{k} of the same process gives {:?}, alone in a process {:?}", initial.get(k).map(|s| s.chars().take(160).collect::<String>()), reference.get(k).map(|s| s.chars().take(160).collect::<String>())),
                    json!({"driver":"HIS","history": ["probes 0.."], "probe": k}),
                );
            }
        }
        for (k, after) in v["after"].as_array().cloned().unwrap_or_default().iter().enumerate() {
            run.validated += 1;
            run.transitions += 1;
            let after: Vec<String> = after.as_array().map(|a| a.iter().map(|x| x.as_str().unwrap_or("").to_string()).collect()).unwrap_or_default();
            if after != initial {
                let prefix: Vec<&str> = h[..=k].to_vec();
                // the shortest history is reported once; the cause is named by its last letter(s)
                let diff = initial.iter().zip(&after).find(|(a, b)| a != b).map(|(a, b)| format!("{} → {}", a.chars().take(80).collect::<String>(), b.chars().take(160).collect::<String>())).unwrap_or_default();
                let key = if diff.contains("PANIC") && diff.contains("log.rs") {
                    "debug-log-lock-poisoned-by-earlier-call".to_string()
                } else {
                    format!("outputs-depend-on-history:{}", prefix.join(">"))
                };
                if first_reported.insert(format!("{key}{}", prefix.join(">"))) {
                    run.violate(Some(key), format!("after the history {prefix:?} the probe outputs differ: {diff}"), json!({"driver":"HIS","history": prefix, "detail": diff}));
                }
                break;
            }
        }
        run.observe(fnv(&h.join(">")));
    }
    run.count("histories:enumerated_(all_prefixes)", hists.len() as u64);

    // ---- 2b. schedules: every interleaving of concurrent calls at the seam's scheduling points, preemption-bounded
    #[cfg(prqlc_verif)]
    if let Err(code) = crate::c11s::run_part(&mut run, tier) {
        return code;
    }

    // ---- 3. file enumeration orders
    for (pi, files) in projects().iter().enumerate() {
        let perms = permutations(files);
        let base = compile_tree(&perms[0]);
        for p in &perms[1..] {
            run.validated += 1;
            let o = compile_tree(p);
            if o != base {
                run.violate(
                    Some(format!("output-depends-on-file-enumeration-order:project{pi}")),
                    format!("project #{pi}: files given as {:?} vs {:?}: {} vs {}", perms[0].iter().map(|f| f.0).collect::<Vec<_>>(), p.iter().map(|f| f.0).collect::<Vec<_>>(), base.chars().take(200).collect::<String>(), o.chars().take(200).collect::<String>()),
                    json!({"driver":"MAT","project": pi, "order": p.iter().map(|f| f.0).collect::<Vec<_>>(), "baseline": base, "got": o}),
                );
                break;
            }
        }
        run.count("file_orders:permutations", perms.len() as u64);
    }

    // ---- 4. free-running threads: cross-check only
    let expect: Vec<Obs> = PROBES.iter().map(|p| observe(p)).collect();
    let nt = nthreads();
    let rounds = tier.pick(20, 100);
    let bad: Vec<String> = std::thread::scope(|sc| {
        let hs: Vec<_> = (0..nt)
            .map(|t| {
                let expect = &expect;
                sc.spawn(move || {
                    let mut bad = vec![];
                    for r in 0..rounds {
                        let i = (t * 7 + r * 3) % PROBES.len();
                        if observe(PROBES[i]) != expect[i] {
                            bad.push(format!("thread {t} round {r} probe {i}"));
                        }
                    }
                    bad
                })
            })
            .collect();
        hs.into_iter().flat_map(|h| h.join().unwrap_or_default()).collect()
    });
    run.count("free_running_threads:calls_(sampled_cross_check)", (nt * rounds) as u64);
    for b in bad.iter().take(3) {
        run.violate(Some("concurrent-call-differs-from-sequential".into()), format!("free-running cross-check: {b}"), json!({"driver":"threads","detail": b}));
    }

    run.states = (PROBES.len() + hists.len() + projects().len()) as u64;
    run.transitions += run.validated;
    run.set("bounds", json!({"probes": PROBES.len(), "hash_order": {"deviations": tier.pick(1, 2), "permutations": "all n! for n<=4, 2n rotations/reversals above", "global_policies": 3, "probes_used": PROBES.len(), "observables": ["sql or error text", "rq json", "formatter output"]},
        "histories": {"alphabet": LETTERS, "depth": depth, "fresh_process_per_history": true}, "file_orders": "all n! orders of 5 projects of 2-4 files", "free_running": "sampled, not deciding"}));
    run.set("rule", json!("HO: every iteration of a hash collection met by a probe is a choice point; every execution with one site deviating from the baseline order (all permutations) must give byte-identical SQL / error text / RQ / formatter output. HIS: after every prefix of every history the probe outputs equal those of the fresh process. MAT: every file enumeration order gives identical SQL and rendered errors."));
    run.assume("hash seeds are modelled as per-site permutations with at most 1 simultaneous deviation plus three global policies; real seeds permute all sites together");
    run.assume("schedules are explored at the scheduling points of seam S (lock / once-cell operations, id and name generation); code between two points runs atomically, atomics and thread-locals are not intercepted (see DESIGN §9.2); the free-running thread pass is a sampled cross-check, not deciding");
    run.finish()
}

pub fn replay(v: &J) -> i32 {
    #[cfg(prqlc_verif)]
    if v["driver"].as_str() == Some("SCH") {
        return crate::c11s::replay(v);
    }
    println!("re-run ./check C11 quick; case: {}", v);
    1
}
