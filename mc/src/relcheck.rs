//! Binding the model to the implementation: print an AP, compile it with the real prqlc,
//! execute the SQL on SQLite, run the reference interpreter, compare.

use crate::iso::{guard, PanicInfo};
use crate::model::*;
use crate::sqlite::Db;
use prqlc::sql::Dialect;
use prqlc::{Options, Target};
use std::cmp::Ordering;
use std::collections::BTreeMap;

pub fn opts(d: Dialect) -> Options {
    Options::default().no_format().no_signature().with_target(Target::Sql(Some(d))).with_display(prqlc::DisplayOptions::Plain)
}

pub fn all_dialects() -> Vec<Dialect> {
    use Dialect::*;
    vec![Ansi, BigQuery, ClickHouse, DuckDb, Generic, GlareDb, MsSql, MySql, Postgres, Redshift, SQLite, Snowflake]
}

pub fn dname(d: Dialect) -> String {
    d.to_string()
}

pub fn err_text(e: &prqlc::ErrorMessages) -> String {
    e.inner.iter().map(|m| m.reason.clone()).collect::<Vec<_>>().join(" | ")
}

#[derive(Clone, Debug)]
pub enum Stage {
    Parse,
    Resolve,
    Sql(String),
}

#[derive(Clone, Debug)]
pub enum CompileOut {
    Ok(String),
    Err(Stage, String),
    Panic(Stage, PanicInfo),
}

/// Staged compilation (prql_to_pl → pl_to_rq → rq_to_sql per dialect); C15 separately checks that
/// this equals the one-shot `compile`.
pub fn compile_staged(text: &str, dialects: &[Dialect]) -> (Option<prqlc::ir::rq::RelationalQuery>, Vec<(Dialect, CompileOut)>) {
    let all = |o: CompileOut| dialects.iter().map(|d| (*d, o.clone())).collect::<Vec<_>>();
    let pl = match guard(|| prqlc::prql_to_pl(text)) {
        Err(p) => return (None, all(CompileOut::Panic(Stage::Parse, p))),
        Ok(Err(e)) => return (None, all(CompileOut::Err(Stage::Parse, err_text(&e)))),
        Ok(Ok(pl)) => pl,
    };
    let rq = match guard(|| prqlc::pl_to_rq(pl)) {
        Err(p) => return (None, all(CompileOut::Panic(Stage::Resolve, p))),
        Ok(Err(e)) => return (None, all(CompileOut::Err(Stage::Resolve, err_text(&e)))),
        Ok(Ok(rq)) => rq,
    };
    let mut out = vec![];
    for d in dialects {
        let o = opts(*d);
        let r = rq.clone();
        out.push((
            *d,
            match guard(|| prqlc::rq_to_sql(r, &o)) {
                Err(p) => CompileOut::Panic(Stage::Sql(dname(*d)), p),
                Ok(Err(e)) => CompileOut::Err(Stage::Sql(dname(*d)), err_text(&e)),
                Ok(Ok(s)) => CompileOut::Ok(s),
            },
        ));
    }
    (Some(rq), out)
}

#[derive(Clone, Debug, PartialEq)]
pub enum Kind {
    Panic,
    CompileReject,
    EngineReject,
    Arity,
    Names,
    Rows,
    Order,
}

/// marks a row finding made after leaving out the repeats of a column listed several times
pub const MERGED_MARK: &str = "with the repeats of the repeated column left out";

#[derive(Clone, Debug)]
pub struct Finding {
    pub kind: Kind,
    pub dialect: String,
    pub inst: Option<Inst>,
    pub msg: String,
    pub sql: String,
    pub expected: String,
    pub got: String,
    /// structured rows for Rows / Order findings (reference, implementation)
    pub rows: Option<(Vec<Vec<V>>, Vec<Vec<V>>)>,
}

#[derive(Default, Debug)]
pub struct Outcome {
    pub text: String,
    pub sqls: Vec<(String, String)>,
    pub findings: Vec<Finding>,
    pub decided: u64,
    pub undecided: BTreeMap<String, u64>,
    pub ordered_checked: u64,
    /// number of CTEs / sub-selects in the sqlite SQL (split coverage)
    pub selects: usize,
    pub outcome_hash: u64,
}

pub fn show_rows(rows: &[Vec<V>]) -> String {
    rows.iter()
        .map(|r| format!("({})", r.iter().map(|v| v.show()).collect::<Vec<_>>().join(",")))
        .collect::<Vec<_>>()
        .join(" ")
}

fn multiset_eq(a: &[Vec<V>], b: &[Vec<V>]) -> bool {
    if a.len() != b.len() {
        return false;
    }
    let mut x: Vec<&Vec<V>> = a.iter().collect();
    let mut y: Vec<&Vec<V>> = b.iter().collect();
    x.sort_by(|p, q| row_cmp(p, q));
    y.sort_by(|p, q| row_cmp(p, q));
    if x.iter().zip(&y).all(|(p, q)| row_eq(p, q)) {
        return true;
    }
    // tolerance-robust fallback: greedy matching
    let mut used = vec![false; b.len()];
    'outer: for r in a {
        for (j, s) in b.iter().enumerate() {
            if !used[j] && row_eq(r, s) {
                used[j] = true;
                continue 'outer;
            }
        }
        return false;
    }
    true
}

/// Admissibility of a result sequence under the order in effect (DESIGN §3 C03).
pub fn order_admissible(reference: &[Row], desc: &[bool], got: &[Vec<V>]) -> bool {
    if reference.len() != got.len() {
        return false;
    }
    'conv: for nulls_small in [true, false] {
        let mut idx: Vec<usize> = (0..reference.len()).collect();
        idx.sort_by(|&a, &b| key_cmp(&reference[a].keys, &reference[b].keys, desc, nulls_small));
        let mut i = 0;
        while i < idx.len() {
            let mut j = i + 1;
            while j < idx.len()
                && key_cmp(&reference[idx[i]].keys, &reference[idx[j]].keys, desc, nulls_small) == Ordering::Equal
            {
                j += 1;
            }
            let class: Vec<Vec<V>> = idx[i..j].iter().map(|&k| reference[k].vals.clone()).collect();
            if !multiset_eq(&class, &got[i..j]) {
                continue 'conv;
            }
            i = j;
        }
        return true;
    }
    false
}

pub const EXEC_DIALECTS: [Dialect; 2] = [Dialect::SQLite, Dialect::Generic];

/// true iff the outermost SELECT ends in `ORDER BY <projected columns>` and `rows` are not sorted that way
/// the statement without the LIMIT / OFFSET of its outermost SELECT (None if it has none)
pub fn strip_outer_limit(sql: &str) -> Option<String> {
    let mut depth = 0i32;
    let mut last_top = 0usize;
    for (i, c) in sql.char_indices() {
        match c {
            '(' => depth += 1,
            ')' => {
                depth -= 1;
                if depth == 0 {
                    last_top = i + 1;
                }
            }
            _ => {}
        }
    }
    let tail = &sql[last_top..];
    let ob = tail.rfind("ORDER BY ")?;
    let cut = [" LIMIT ", " OFFSET "].iter().filter_map(|k| tail[ob..].find(k)).min()?;
    Some(format!("{}{}", &sql[..last_top], &tail[..ob + cut]))
}

pub fn engine_violates_own_order_by(sql: &str, names: &[String], rows: &[Vec<V>]) -> bool {
    // text after the last top-level closing parenthesis = the outermost SELECT
    let mut depth = 0i32;
    let mut last_top = 0usize;
    for (i, c) in sql.char_indices() {
        match c {
            '(' => depth += 1,
            ')' => {
                depth -= 1;
                if depth == 0 {
                    last_top = i + 1;
                }
            }
            _ => {}
        }
    }
    let tail = &sql[last_top..];
    let Some(p) = tail.rfind("ORDER BY ") else { return false };
    let mut ob = &tail[p + 9..];
    for stop in [" LIMIT ", " OFFSET ", " FETCH "] {
        if let Some(q) = ob.find(stop) {
            ob = &ob[..q];
        }
    }
    let mut keys: Vec<(usize, bool)> = vec![];
    for term in ob.split(',') {
        let t = term.trim();
        let (name, desc) = match t.strip_suffix(" DESC") {
            Some(n) => (n.trim(), true),
            None => (t.strip_suffix(" ASC").unwrap_or(t).trim(), false),
        };
        let bare = name.rsplit('.').next().unwrap_or(name).trim_matches('"');
        // the term must be a plain projected column, unambiguous
        let hits: Vec<usize> = (0..names.len()).filter(|&i| names[i] == bare).collect();
        if hits.len() != 1 || !bare.chars().all(|c| c.is_alphanumeric() || c == '_') {
            return false;
        }
        keys.push((hits[0], desc));
    }
    if keys.is_empty() {
        return false;
    }
    // SQLite: NULL is the smallest value
    rows.windows(2).any(|w| {
        for (i, desc) in &keys {
            let o = key_cmp(std::slice::from_ref(&w[0][*i]), std::slice::from_ref(&w[1][*i]), &[*desc], true);
            match o {
                Ordering::Less => return false,
                Ordering::Greater => return true,
                Ordering::Equal => {}
            }
        }
        false
    })
}

/// Full comparison of one program on a list of instances.
/// dialects whose emitted column list is checked statically (without execution); set once by the check that wants it
pub static STATIC_NAME_DIALECTS: std::sync::OnceLock<Vec<Dialect>> = std::sync::OnceLock::new();

pub fn check_program(db: &Db, prog: &Program, insts: &[Inst]) -> Outcome {
    let text = pr_program(prog);
    let mut out = Outcome { text: text.clone(), ..Default::default() };
    let (_rq, compiled) = compile_staged(&text, &EXEC_DIALECTS);
    let final_frame = pipeline_frame(prog.main.as_ref().unwrap(), prog);
    let mut ok_sql: Vec<(String, String)> = vec![];
    let mut seen_fail = false;
    for (d, c) in compiled {
        match c {
            CompileOut::Ok(s) => ok_sql.push((dname(d), s)),
            CompileOut::Err(stage, m) => {
                if !seen_fail || matches!(stage, Stage::Sql(_)) {
                    out.findings.push(Finding {
                        kind: Kind::CompileReject,
                        dialect: dname(d),
                        inst: None,
                        msg: format!("{stage:?}: {m}"),
                        sql: String::new(),
                        expected: "the program is well-scoped: compiles".into(),
                        got: m,
                        rows: None,
                    });
                }
                seen_fail = true;
            }
            CompileOut::Panic(stage, p) => {
                if !seen_fail || matches!(stage, Stage::Sql(_)) {
                    out.findings.push(Finding {
                        kind: Kind::Panic,
                        dialect: dname(d),
                        inst: None,
                        msg: format!("panic at {} ({stage:?}): {}", p.site, p.msg),
                        sql: String::new(),
                        expected: "no panic".into(),
                        got: p.site,
                        rows: None,
                    });
                }
                seen_fail = true;
            }
        }
    }
    // static column list of the statement emitted for dialects that cannot be executed here (set by C05): with the
    // schema of t and u known, the reference binder derives the names a statement returns, `* EXCLUDE (…)` included
    if let (Some(rq), Some(ds)) = (&_rq, STATIC_NAME_DIALECTS.get()) {
        if !seen_fail {
            for d in ds {
                let r = rq.clone();
                let Ok(Ok(sql)) = guard(|| prqlc::rq_to_sql(r, &opts(*d))) else { continue };
                let Some(names) = crate::binder::output_columns(&sql, *d, &[("t", &["a", "b"]), ("u", &["a", "d"])]) else {
                    out.undecided.entry("static column list not derivable".into()).and_modify(|n| *n += 1).or_insert(1);
                    continue;
                };
                out.decided += 1;
                let exp: Vec<Option<String>> = final_frame.cols.iter().map(|c| c.name.clone()).collect();
                let bad = if names.len() != exp.len() {
                    Some((Kind::Arity, format!("result has {} columns {:?}, the final frame has {}", names.len(), names, exp.len())))
                } else {
                    exp.iter().zip(&names).position(|(e, g)| e.as_ref().map(|e| !e.eq_ignore_ascii_case(g) && !g.starts_with("?column")).unwrap_or(false)).map(|k| (Kind::Names, format!("column {k} is called {:?}, PRQL name is {:?}", names[k], exp[k].clone().unwrap_or_default())))
                };
                if let Some((kind, msg)) = bad {
                    out.findings.push(Finding { kind, dialect: dname(*d), inst: None, msg, sql: sql.clone(), expected: serde_json::to_string(&exp).unwrap(), got: serde_json::to_string(&names).unwrap(), rows: None });
                }
            }
        }
    }
    out.sqls = ok_sql.clone();
    if let Some((_, s)) = ok_sql.first() {
        out.selects = s.matches("SELECT").count();
    }
    let mut hasher_acc: u64 = 0;
    for (dn, sql) in &ok_sql {
        // engine verdict + column names once
        let names = match db.prepare(sql) {
            Ok(n) => n,
            Err(e) => {
                // standard SQL the bundled engine lacks: not a verdict about the compiler
                if dn != "sqlite" && (sql.contains("INTERSECT ALL") || sql.contains("EXCEPT ALL")) && e.contains("near \"ALL\"") {
                    *out.undecided.entry("engine lacks INTERSECT/EXCEPT ALL (generic)".into()).or_insert(0) += insts.len() as u64;
                    continue;
                }
                if dn != "sqlite" && sql.contains("UNION DISTINCT") && e.contains("near \"DISTINCT\"") {
                    *out.undecided.entry("engine lacks UNION DISTINCT (generic)".into()).or_insert(0) += insts.len() as u64;
                    continue;
                }
                if dn != "sqlite" && e.contains("syntax error") && crate::causes::offset_without_limit(sql) {
                    *out.undecided.entry("engine needs LIMIT with OFFSET (generic)".into()).or_insert(0) += insts.len() as u64;
                    continue;
                }
                out.findings.push(Finding {
                    kind: Kind::EngineReject,
                    dialect: dn.clone(),
                    inst: None,
                    msg: format!("SQLite rejects the statement: {e}"),
                    sql: sql.clone(),
                    expected: "statement prepares".into(),
                    got: e,
                    rows: None,
                });
                continue;
            }
        };
        let arity_differs = names.len() != final_frame.cols.len();
        if arity_differs {
            out.findings.push(Finding {
                kind: Kind::Arity,
                dialect: dn.clone(),
                inst: None,
                msg: format!("result has {} columns {:?}, the final frame has {}", names.len(), names, final_frame.cols.len()),
                sql: sql.clone(),
                expected: serde_json::to_string(&final_frame.cols.iter().map(|c| c.name.clone()).collect::<Vec<_>>()).unwrap(),
                got: serde_json::to_string(&names).unwrap(),
                rows: None,
            });
        } else {
            for (k, c) in final_frame.cols.iter().enumerate() {
                if let Some(n) = &c.name {
                    // SQLite labels the second of two same-named columns coming out of a sub-query `name:1`
                    // (standard SQL keeps the name): such a label names the column it repeats
                    let label = match names[k].rsplit_once(':') {
                        Some((base, suffix)) if !suffix.is_empty() && suffix.chars().all(|c| c.is_ascii_digit()) => base,
                        _ => names[k].as_str(),
                    };
                    if label != n {
                        out.findings.push(Finding {
                            kind: Kind::Names,
                            dialect: dn.clone(),
                            inst: None,
                            msg: format!("column {k} is called {:?}, PRQL name is {:?}", names[k], n),
                            sql: sql.clone(),
                            expected: serde_json::to_string(&final_frame.cols.iter().map(|c| c.name.clone()).collect::<Vec<_>>()).unwrap(),
                            got: serde_json::to_string(&names).unwrap(),
                            rows: None,
                        });
                        break;
                    }
                }
            }
        }
        let mut rows_reported = false;
        let mut order_reported = false;
        // A frame that lists one named column several times comes back with the repeats merged (a recorded defect of
        // its own, reported above as an arity finding). The rows can still be decided: they must be the reference rows
        // with the repeats left out — otherwise a second defect hides behind the first.
        let mut merged_projection: Option<Vec<usize>> = None;
        if arity_differs {
            // positions of the final `select` that list a column already listed by an earlier item
            let mut first_of: Vec<Option<usize>> = vec![None; final_frame.cols.len()];
            if let Some(Step::Select(items)) = prog.main.as_ref().and_then(|m| m.steps.last()) {
                if items.len() == final_frame.cols.len() {
                    for (k, it) in items.iter().enumerate() {
                        if let (E::Col(c), None) = (&it.e, &it.alias) {
                            first_of[k] = items[..k].iter().position(|j| j.alias.is_none() && matches!(&j.e, E::Col(c2) if c2 == c));
                        }
                    }
                }
            }
            let keep: Vec<usize> = (0..final_frame.cols.len()).filter(|&k| first_of[k].is_none()).collect();
            // the surviving column carries the name of the column (the model names the last listing)
            let name_of = |k: usize| -> Option<String> {
                final_frame.cols[k].name.clone().or_else(|| (0..final_frame.cols.len()).find(|&r| first_of[r] == Some(k)).and_then(|r| final_frame.cols[r].name.clone()))
            };
            let same_names = keep.len() == names.len() && keep.iter().zip(&names).all(|(&k, n)| name_of(k).map(|e| &e == n).unwrap_or(true));
            if keep.len() < final_frame.cols.len() && same_names {
                merged_projection = Some(keep);
            } else {
                continue;
            }
        }
        for inst in insts {
            let reference = match Interp::run(prog, inst) {
                Ok(r) => r,
                Err(Undecided(why)) => {
                    *out.undecided.entry(why).or_insert(0) += 1;
                    continue;
                }
            };
            db.load(inst);
            let (_, got) = match db.query(sql) {
                Ok(r) => r,
                Err(e) => {
                    if !rows_reported {
                        out.findings.push(Finding {
                            kind: Kind::EngineReject,
                            dialect: dn.clone(),
                            inst: Some(inst.clone()),
                            msg: format!("SQLite fails executing the statement: {e}"),
                            sql: sql.clone(),
                            expected: "statement executes".into(),
                            got: e,
                            rows: None,
                        });
                        rows_reported = true;
                    }
                    continue;
                }
            };
            out.decided += 1;
            let ref_rows: Vec<Vec<V>> = match &merged_projection {
                None => reference.rows.iter().map(|r| r.vals.clone()).collect(),
                Some(keep) => reference.rows.iter().map(|r| keep.iter().map(|&k| r.vals[k].clone()).collect()).collect(),
            };
            hasher_acc = hasher_acc.wrapping_mul(31).wrapping_add(crate::report::fnv(&show_rows(&got)));
            if !multiset_eq(&ref_rows, &got) {
                // second opinion about the *engine* (see the order check below): a LIMIT / OFFSET of the outermost
                // SELECT picks other rows when the engine returns them in an order that contradicts the statement's
                // own ORDER BY. Run the statement without that LIMIT and test the engine against itself.
                if let Some(unlimited) = strip_outer_limit(sql) {
                    if let Ok((_, all_rows)) = db.query(&unlimited) {
                        if engine_violates_own_order_by(&unlimited, &names, &all_rows) {
                            *out.undecided.entry("engine result violates the statement's own ORDER BY (SQLite optimizer defect)".into()).or_insert(0) += 1;
                            continue;
                        }
                    }
                }
                if !rows_reported {
                    rows_reported = true;
                    out.findings.push(Finding {
                        kind: Kind::Rows,
                        dialect: dn.clone(),
                        inst: Some(inst.clone()),
                        msg: if merged_projection.is_some() { format!("rows differ, also {MERGED_MARK}, on {}", inst.show()) } else { format!("rows differ on {}", inst.show()) },
                        sql: sql.clone(),
                        expected: show_rows(&ref_rows),
                        got: show_rows(&got),
                        rows: Some((ref_rows.clone(), got.clone())),
                    });
                }
                continue;
            }
            if merged_projection.is_some() {
                continue;
            }
            if let Some(desc) = &reference.order {
                out.ordered_checked += 1;
                if !order_admissible(&reference.rows, desc, &got) && !order_reported {
                    // second opinion about the *engine*: does the result respect the ORDER BY of the
                    // outermost SELECT of the statement it was given? (the bundled SQLite 3.49.1 returns
                    // `... GROUP BY a ORDER BY a DESC` over a sorted, limited sub-query in ascending order)
                    if engine_violates_own_order_by(sql, &names, &got) {
                        *out.undecided.entry("engine result violates the statement's own ORDER BY (SQLite optimizer defect)".into()).or_insert(0) += 1;
                        continue;
                    }
                    order_reported = true;
                    out.findings.push(Finding {
                        kind: Kind::Order,
                        dialect: dn.clone(),
                        inst: Some(inst.clone()),
                        msg: format!("row order is not the order in effect on {}", inst.show()),
                        sql: sql.clone(),
                        expected: format!(
                            "{} (sort keys {:?} desc={:?})",
                            show_rows(&ref_rows),
                            reference.rows.iter().map(|r| r.keys.iter().map(|v| v.show()).collect::<Vec<_>>().join(",")).collect::<Vec<_>>(),
                            desc
                        ),
                        got: show_rows(&got),
                        rows: None,
                    });
                }
            }
        }
    }
    out.outcome_hash = hasher_acc;
    out
}

/// Replay one recorded AP violation without the explorer: compile the recorded PRQL, execute it on
/// the recorded instance and compare with the recorded expectation.
pub fn replay(v: &serde_json::Value) -> i32 {
    // differential drivers: two programs that must return the same rows on the recorded instance
    if let Some(other) = v.get("in_place").or_else(|| v.get("by_name")).and_then(|x| x.as_str()) {
        return replay_pair(v, v["prql"].as_str().unwrap_or(""), other);
    }
    let prql = v["prql"].as_str().unwrap_or("");
    let d = match v["dialect"].as_str() {
        Some("generic") => Dialect::Generic,
        _ => Dialect::SQLite,
    };
    let parse_inst = |s: &str| -> Inst {
        let rows = |part: &str| -> Vec<Vec<V>> {
            let inner = part.split('[').nth(1).and_then(|x| x.split(']').next()).unwrap_or("");
            inner
                .split(')')
                .filter_map(|r| r.trim().strip_prefix('('))
                .map(|r| r.split(',').map(|c| match c.trim() { "NULL" => V::Null, x => x.parse::<i64>().map(V::Int).unwrap_or_else(|_| x.parse::<f64>().map(V::Real).unwrap_or(V::Null)) }).collect())
                .collect()
        };
        let (t, u) = s.split_once(" u(a,d)=").unwrap_or((s, "[]"));
        Inst { name: "replay".into(), t: rows(t), u: rows(u) }
    };
    let sql = match guard(|| prqlc::compile(prql, &opts(d))) {
        Ok(Ok(s)) => s,
        Ok(Err(e)) => {
            println!("compile error: {}", err_text(&e));
            return if v["kind"] == "CompileReject" { 1 } else { 0 };
        }
        Err(p) => {
            println!("FAIL panic at {}: {}", p.site, p.msg);
            return 1;
        }
    };
    println!("SQL: {sql}");
    let db = Db::new();
    match v["kind"].as_str().unwrap_or("") {
        "Arity" | "Names" => match db.prepare(&sql) {
            Ok(names) => {
                let got = serde_json::to_string(&names).unwrap();
                println!("columns: {got}; recorded frame: {}", v["expected"]);
                let exp: Vec<Option<String>> = serde_json::from_str(v["expected"].as_str().unwrap_or("[]")).unwrap_or_default();
                let ok = exp.len() == names.len() && exp.iter().zip(&names).all(|(e, n)| e.as_ref().map(|e| e == n).unwrap_or(true));
                if ok { println!("OK"); 0 } else { println!("FAIL"); 1 }
            }
            Err(e) => {
                println!("FAIL engine: {e}");
                1
            }
        },
        _ => {
            if let Some(i) = v["instance"].as_str() {
                db.load(&parse_inst(i));
            }
            match db.query(&sql) {
                Err(e) => {
                    println!("FAIL engine: {e}");
                    1
                }
                Ok((_, rows)) => {
                    let got = show_rows(&rows);
                    println!("got:      {got}\nexpected: {}", v["expected"].as_str().unwrap_or(""));
                    let exp = v["expected"].as_str().unwrap_or("");
                    let exp_rows = exp.split(" (sort keys").next().unwrap_or(exp);
                    let mut a: Vec<&str> = got.split(' ').collect();
                    let mut b: Vec<&str> = exp_rows.split(' ').collect();
                    if v["kind"] != "Order" {
                        a.sort();
                        b.sort();
                    }
                    if a == b { println!("OK"); 0 } else { println!("FAIL"); 1 }
                }
            }
        }
    }
}

fn parse_inst_text(s: &str) -> Inst {
    let rows = |part: &str| -> Vec<Vec<V>> {
        let inner = part.split('[').nth(1).and_then(|x| x.split(']').next()).unwrap_or("");
        inner
            .split(')')
            .filter_map(|r| r.trim().strip_prefix('('))
            .map(|r| r.split(',').map(|c| match c.trim() { "NULL" => V::Null, x => x.parse::<i64>().map(V::Int).unwrap_or_else(|_| x.parse::<f64>().map(V::Real).unwrap_or(V::Null)) }).collect())
            .collect()
    };
    let (t, u) = s.split_once(" u(a,d)=").unwrap_or((s, "[]"));
    Inst { name: "replay".into(), t: rows(t), u: rows(u) }
}

fn replay_pair(v: &serde_json::Value, first: &str, second: &str) -> i32 {
    let d = match v["dialect"].as_str() {
        Some("generic") => Dialect::Generic,
        _ => Dialect::SQLite,
    };
    let compile = |s: &str| match guard(|| prqlc::compile(s, &opts(d))) {
        Ok(Ok(sql)) => Ok(sql),
        Ok(Err(e)) => Err(err_text(&e)),
        Err(p) => Err(format!("panic at {}: {}", p.site, p.msg)),
    };
    let (a, b) = (compile(first), compile(second));
    println!("first:  {first}\n  -> {a:?}\nsecond: {second}\n  -> {b:?}");
    let (Ok(a), Ok(b)) = (a, b) else {
        println!("FAIL (one of the two forms does not compile)");
        return 1;
    };
    let db = Db::new();
    let insts: Vec<Inst> = match v["instance"].as_str() {
        Some(s) => vec![parse_inst_text(s)],
        None => crate::inst::pool(),
    };
    for inst in &insts {
        db.load(inst);
        let (ra, rb) = (db.query(&a), db.query(&b));
        let same = match (&ra, &rb) {
            (Ok((n1, r1)), Ok((n2, r2))) => n1.len() == n2.len() && multiset_eq(r1, r2),
            (Err(_), Err(_)) => true,
            _ => false,
        };
        if !same {
            println!("on {}: {:?} vs {:?}\nFAIL", inst.show(), ra.map(|r| show_rows(&r.1)), rb.map(|r| show_rows(&r.1)));
            return 1;
        }
    }
    println!("OK");
    0
}

#[cfg(test)]
mod tests {
    use super::*;
    #[test]
    fn order_after_group_then_sort() {
        let mut prog = Program::default();
        prog.main = Some(Pipeline {
            src: Source::Table("t".into()),
            steps: vec![
                Step::Sort(vec![(false, E::Col(0))]),
                Step::Take(Some(1), Some(2)),
                Step::Group { keys: vec![0], inner: vec![Step::Aggregate(vec![("n".into(), Agg::CountThis, None)])] },
                Step::Sort(vec![(true, E::Col(0))]),
            ],
        });
        let inst = Inst { name: "x".into(), t: vec![vec![V::Int(1), V::Null], vec![V::Int(2), V::Null]], u: vec![vec![V::Int(1), V::Null]] };
        let db = Db::new();
        let o = check_program(&db, &prog, &[inst]);
        for f in &o.findings {
            eprintln!("{:?} {} exp={} got={} SQL={} PRQL={}", f.kind, f.msg, f.expected, f.got, f.sql, o.text);
        }
        assert!(o.findings.is_empty(), "{}", o.text);
    }
}
