//! C17 — tokens tile the source and re-lex to themselves.
//! STR driver: every string up to length k over the lexically significant alphabet, plus
//! every pair/triple of tokens from a token list with every separator.

use crate::engine;
use crate::iso::guard;
use crate::report::{hash_of, par_map, Run, Tier};
use prqlc_parser::lexer::lr::{Token, TokenKind};
use prqlc_parser::lexer::{lex_source, lex_source_recovery};
use serde_json::json;

pub const ALPHA: &[char] = &[
    'a', 'r', 's', 'f', 'e', '1', '0', '_', '.', '"', '\'', '`', '\\', '#', ' ', '\t', '\n', '\r',
    '@', '-', '=', '|', ':', 'é',
];

const TOKENS: &[&str] = &[
    "a", "r", "let", "into", "case", "prql", "type", "module", "internal", "func", "import", "enum",
    "1", "1.5", "1e3", "0x1f", "0b1", "0o7", "1_0", "'s'", "\"s\"", "'''s'''", "r'x'", "f\"{a}\"",
    "s\"x\"", "null", "true", "false", "@2020-01-01", "@10:00", "@2020-01-01T10:00:00Z", "2days",
    "1hours", "$1", "$a.b", "`q w`", "..", "->", "=>", "==", "!=", ">=", "<=", "~=", "&&", "||",
    "??", "//", "**", "@", ">", "<", "/", "%", "=", "+", "-", "*", "[", "]", "(", ")", ".", ",",
    ":", "|", "!", "{", "}", "# c", "#! d", "é", "_x",
];
const KEYWORDS: &[&str] = &["let", "into", "case", "prql", "type", "module", "internal", "func", "import", "enum", "null", "true", "false"];
const SEPS: &[&str] = &["", " ", "\n", "\n\\ ", " # c\n", "\t", "\r\n"];

#[derive(Debug)]
pub struct Bad {
    pub key: String,
    pub why: String,
}

fn is_inline_ws(s: &str) -> bool {
    // chumsky text::inline_whitespace: any Unicode whitespace other than newline chars
    s.chars().all(|c| c.is_whitespace() && c != '\n' && c != '\r')
}

/// The oracle. Ok(n_tokens) or the first failed clause.
pub fn check_source(src: &str) -> Result<(bool, usize), Bad> {
    let r = guard(|| lex_source(src)).map_err(|p| Bad {
        key: format!("panic@{}", p.site),
        why: format!("lexer panicked: {} at {}", p.msg, p.site),
    })?;
    let (rec_toks, rec_errs) = guard(|| lex_source_recovery(src, 1)).map_err(|p| Bad {
        key: format!("panic@{}", p.site),
        why: format!("lex_source_recovery panicked: {}", p.msg),
    })?;
    match r {
        Err(errs) => {
            if errs.is_empty() {
                return Err(Bad { key: "err-empty".into(), why: "rejected with zero errors".into() });
            }
            if rec_toks.is_some() || rec_errs.is_empty() {
                return Err(Bad {
                    key: "recovery-disagrees".into(),
                    why: "lex_source rejects but lex_source_recovery returns tokens / no errors".into(),
                });
            }
            Ok((false, 0))
        }
        Ok(toks) => {
            let toks = toks.0;
            match &rec_toks {
                Some(t) if *t == toks && rec_errs.is_empty() => {}
                _ => {
                    return Err(Bad {
                        key: "recovery-disagrees".into(),
                        why: "lex_source accepts but lex_source_recovery differs".into(),
                    })
                }
            }
            if toks.first().map(|t| (&t.kind, t.span.clone())) != Some((&TokenKind::Start, 0..0)) {
                return Err(Bad { key: "no-start".into(), why: "first token is not Start 0..0".into() });
            }
            let mut pos = 0usize;
            for t in &toks[1..] {
                let (s, e) = (t.span.start, t.span.end);
                if s > e || e > src.len() {
                    return Err(Bad { key: "span-out-of-source".into(), why: format!("span {s}..{e} outside source of {} bytes", src.len()) });
                }
                if !src.is_char_boundary(s) || !src.is_char_boundary(e) {
                    return Err(Bad { key: "span-not-on-char-boundary".into(), why: format!("span {s}..{e} splits a character") });
                }
                if s < pos {
                    return Err(Bad { key: "span-overlap".into(), why: format!("span {s}..{e} starts before previous end {pos}") });
                }
                if !is_inline_ws(&src[pos..s]) {
                    return Err(Bad { key: "gap-not-whitespace".into(), why: format!("gap {:?} between tokens is not inline whitespace", &src[pos..s]) });
                }
                if s == e {
                    return Err(Bad { key: "empty-token".into(), why: format!("token {:?} has empty span {s}..{e}", t.kind) });
                }
                pos = e;
            }
            if !is_inline_ws(&src[pos..]) {
                return Err(Bad { key: "gap-not-whitespace".into(), why: format!("trailing text {:?} not covered by any token", &src[pos..]) });
            }
            // re-lex each token's slice alone
            for t in &toks[1..] {
                let sl = &src[t.span.clone()];
                let again = guard(|| lex_source(sl)).map_err(|p| Bad { key: format!("panic@{}", p.site), why: p.msg })?;
                let want = vec![
                    Token { kind: TokenKind::Start, span: 0..0 },
                    Token { kind: t.kind.clone(), span: 0..sl.len() },
                ];
                match again {
                    Ok(a) if a.0 == want => {}
                    Ok(a) => {
                        // cause predicate of the one recorded finding: a keyword spelling directly
                        // followed by a character that neither continues an identifier nor ends an
                        // expression is lexed as Ident, alone it is a Keyword
                        let next = src[t.span.end..].chars().next();
                        let kw_before_nonterminator = matches!(&t.kind, TokenKind::Ident(k) if KEYWORDS.contains(&k.as_str()))
                            && a.0.len() == 2
                            && (matches!(&a.0[1].kind, TokenKind::Keyword(k) if k == sl)
                                || matches!(&a.0[1].kind, TokenKind::Literal(l) if matches!(l, prqlc_parser::lexer::lr::Literal::Null | prqlc_parser::lexer::lr::Literal::Boolean(_))))
                            && matches!(next, Some(c) if !(c.is_alphanumeric() || c == '_') && !",)]}\t >\n\r".contains(c))
                            && !src[t.span.end..].starts_with("..");
                        if kw_before_nonterminator {
                            return Err(Bad {
                                key: "keyword-lexed-as-ident-before-non-terminator".into(),
                                why: format!("slice {:?} of token {:?} re-lexes to {:?}", sl, t.kind, &a.0[1..]),
                            });
                        }
                        return Err(Bad {
                            key: format!("relex-differs:{}", kind_name(&t.kind)),
                            why: format!("slice {:?} of token {:?} re-lexes to {:?}", sl, t.kind, &a.0[1.min(a.0.len())..]),
                        })
                    }
                    Err(_) => {
                        return Err(Bad {
                            key: format!("relex-rejected:{}", kind_name(&t.kind)),
                            why: format!("slice {:?} of token {:?} is rejected alone", sl, t.kind),
                        })
                    }
                }
            }
            Ok((true, toks.len() - 1))
        }
    }
}

pub fn kind_name(k: &TokenKind) -> String {
    let s = format!("{k:?}");
    s.split(|c: char| !c.is_alphanumeric()).next().unwrap_or("").to_string()
}

fn nth_string(mut i: u64, len: usize) -> String {
    let mut s = String::new();
    for _ in 0..len {
        s.push(ALPHA[(i % ALPHA.len() as u64) as usize]);
        i /= ALPHA.len() as u64;
    }
    s
}

pub fn run(tier: Tier) -> i32 {
    let mut run = Run::new("C17", tier);
    let maxlen = tier.pick(5, 6);
    // --- part A: all strings up to maxlen, in blocks
    let mut blocks: Vec<(usize, u64, u64)> = vec![];
    for len in 0..=maxlen {
        let total = (ALPHA.len() as u64).pow(len as u32);
        let step = 20_000u64;
        let mut lo = 0;
        while lo < total {
            blocks.push((len, lo, (lo + step).min(total)));
            lo += step;
        }
    }
    struct Acc {
        n: u64,
        accepted: u64,
        tokens: u64,
        bad: Vec<(String, Bad)>,
        kinds: std::collections::BTreeSet<u64>,
    }
    let res = par_map(
        &blocks,
        || (),
        |_, &(len, lo, hi)| {
            let mut a = Acc { n: 0, accepted: 0, tokens: 0, bad: vec![], kinds: Default::default() };
            for i in lo..hi {
                let s = nth_string(i, len);
                a.n += 1;
                match check_source(&s) {
                    Ok((acc, nt)) => {
                        if acc {
                            a.accepted += 1;
                            a.tokens += nt as u64;
                            if let Ok(t) = lex_source(&s) {
                                let ks: Vec<String> = t.0.iter().map(|t| kind_name(&t.kind)).collect();
                                a.kinds.insert(hash_of(&ks));
                            }
                        }
                    }
                    Err(b) => {
                        if a.bad.len() < 50 {
                            a.bad.push((s, b))
                        }
                    }
                }
            }
            a
        },
    );
    let mut nstr = 0;
    for a in res {
        nstr += a.n;
        run.count("strings", a.n);
        run.count("strings_accepted", a.accepted);
        run.count("tokens_relexed", a.tokens);
        for k in a.kinds {
            run.observe(k);
        }
        for (s, b) in a.bad {
            run.violate(Some(b.key.clone()), format!("{:?}: {}", s, b.why), json!({"driver":"STR","source": s, "why": b.why}));
        }
    }
    // --- part A2: characters no keyboard shows (byte-order mark, no-break space, zero-width space, line
    // separator, next-line) in front of and behind every string up to a shorter length
    {
        const INVISIBLE: &[char] = &['\u{feff}', '\u{a0}', '\u{200b}', '\u{2028}', '\u{85}'];
        let l2 = tier.pick(3, 4);
        let mut srcs: Vec<String> = vec![];
        for len in 0..=l2 {
            let total = (ALPHA.len() as u64).pow(len as u32);
            for i in 0..total {
                let s = nth_string(i, len);
                for ch in INVISIBLE {
                    srcs.push(format!("{ch}{s}"));
                    if len > 0 {
                        srcs.push(format!("{s}{ch}"));
                    }
                }
            }
        }
        let res = par_map(&srcs, || (), |_, s| check_source(s).map_err(|b| (s.clone(), b)));
        for r in res {
            run.count("strings_with_invisible_character", 1);
            match r {
                Ok((true, n)) => {
                    run.count("strings_with_invisible_character_accepted", 1);
                    run.count("tokens_relexed", n as u64);
                }
                Ok(_) => {}
                Err((s, b)) => run.violate(Some(b.key.clone()), format!("{:?}: {}", s, b.why), json!({"driver":"STR","source": s, "why": b.why})),
            }
        }
    }
    // --- part B: token pairs (and triples in thorough) with separators, via the engine
    let (cases, st) = engine::collect(0, |c| {
        let n = if tier == Tier::Thorough { 2 + c.choose(2, "ntok") } else { 2 };
        let mut s = String::new();
        for i in 0..n {
            if i > 0 {
                s.push_str(*c.pick(SEPS, "sep"));
            }
            s.push_str(*c.pick(TOKENS, "tok"));
        }
        Some(s)
    });
    let srcs: Vec<String> = cases.into_iter().map(|(s, _)| s).collect();
    let res = par_map(&srcs, || (), |_, s| check_source(s).map_err(|b| (s.clone(), b)));
    for r in res {
        run.count("token_sequences", 1);
        match r {
            Ok((true, n)) => {
                run.count("token_sequences_accepted", 1);
                run.count("tokens_relexed", n as u64);
            }
            Ok(_) => {}
            Err((s, b)) => run.violate(Some(b.key.clone()), format!("{:?}: {}", s, b.why), json!({"driver":"STR-tokens","source": s, "why": b.why})),
        }
    }
    // --- part C (HIST): lexing is a function of its input alone. After every string up to hist_len
    // (accepted or rejected, through both entry points) the fixed probes must lex to the token lists
    // they gave before anything else was lexed in this process.
    let hist_len = tier.pick(4, 5);
    let expected: Vec<String> = HIST_PROBES.iter().map(|p| lex_obs(p)).collect();
    let mut hblocks: Vec<(usize, u64, u64)> = vec![];
    for len in 1..=hist_len {
        let total = (ALPHA.len() as u64).pow(len as u32);
        let mut lo = 0;
        while lo < total {
            hblocks.push((len, lo, (lo + 20_000).min(total)));
            lo += 20_000;
        }
    }
    let hres = par_map(
        &hblocks,
        || (),
        |_, &(len, lo, hi)| {
            let mut bad: Vec<(String, usize, String)> = vec![];
            let mut n = 0u64;
            for i in lo..hi {
                let s = nth_string(i, len);
                let _ = guard(|| lex_source(&s));
                let _ = guard(|| lex_source_recovery(&s, 1));
                for (k, p) in HIST_PROBES.iter().enumerate() {
                    n += 1;
                    let got = lex_obs(p);
                    if got != expected[k] && bad.len() < 20 {
                        bad.push((s.clone(), k, got));
                    }
                }
            }
            (n, bad)
        },
    );
    let mut nh = 0u64;
    for (n, bad) in hres {
        nh += n;
        for (s, k, got) in bad {
            run.violate(
                Some("lexing-depends-on-history".into()),
                format!("after lexing {:?}, {:?} lexes to {} (alone: {})", s, HIST_PROBES[k], got, expected[k]),
                json!({"driver":"HIST","history":[s],"probe":HIST_PROBES[k]}),
            );
        }
    }
    run.count("history_probe_lexes", nh);
    run.states = nstr + st.executions + nh;
    run.transitions = nstr + st.points + nh;
    run.validated = nstr + st.executions + nh;
    run.set("bounds", json!({"alphabet": ALPHA.iter().collect::<String>(), "max_len": maxlen, "history_len": hist_len, "history_probes": HIST_PROBES, "token_list": TOKENS.len(), "separators": SEPS, "token_seq_len": tier.pick(2, 3)}));
    run.set("rule", json!("every string over the alphabet up to max_len, every token sequence × separator; distinct = distinct token-kind sequences among accepted strings"));
    for s in ["a..1", "f\"{a}\" \n\\ 'é'", "r's'#", "1.e0"] {
        run.sample(json!({"source": s, "verdict": format!("{:?}", check_source(s).map_err(|b| b.why))}));
    }
    run.assume("token spans are byte offsets into the UTF-8 source (what the lexer produces for &str input)");
    run.assume("'inline whitespace' = Unicode whitespace other than LF/CR (chumsky text::inline_whitespace)");
    run.finish()
}

/// Probes of the history part: one per lexer path that builds its token from accumulated text.
const HIST_PROBES: &[&str] = &["x == \"c\"", "'d' f\"{e}\" s'q'", "r'z' 1.5 @2020-01-01", "`b c` 0x1f # k\n2days"];

fn lex_obs(src: &str) -> String {
    match guard(|| (lex_source(src), lex_source_recovery(src, 1))) {
        Ok((a, (b, e))) => format!("{:?} / {:?} / {}", a.map(|t| t.0).map_err(|e| e.len()), b, e.len()),
        Err(p) => format!("panic {}", p.msg),
    }
}

pub fn replay(v: &serde_json::Value) -> i32 {
    if v["driver"] == "HIST" {
        let probe = v["probe"].as_str().unwrap_or("");
        let alone = lex_obs(probe);
        for h in v["history"].as_array().cloned().unwrap_or_default() {
            let h = h.as_str().unwrap_or("").to_string();
            let _ = guard(|| lex_source(&h));
            let _ = guard(|| lex_source_recovery(&h, 1));
        }
        let after = lex_obs(probe);
        if after == alone {
            println!("OK {:?} lexes the same after the history", probe);
            return 0;
        }
        println!("FAIL {:?}: alone {} / after history {}", probe, alone, after);
        return 1;
    }
    let s = v["source"].as_str().unwrap_or("");
    match check_source(s) {
        Ok(r) => {
            println!("OK {:?} -> {:?}", s, r);
            0
        }
        Err(b) => {
            println!("FAIL {:?}: [{}] {}", s, b.key, b.why);
            1
        }
    }
}
