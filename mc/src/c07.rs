//! C07 — every accepted program compiles to SQL the selected dialect parses and binds.
//! AP + MAT: programs × all 12 dialects; three oracle layers (parse with the dialect's grammar,
//! reference binder, engine prepare for sqlite / generic).

use crate::apgen::{GenCfg, Letters, SrcKind};
use crate::binder::{check_sql_with, let_relations};
use crate::iso::guard;
use crate::model::pr_program;
use crate::relcheck::{all_dialects, dname, err_text, opts};
use crate::relrun::enumerate;
use crate::report::{fnv, par_map, Run, Tier};
use crate::sqlite::Db;
use prqlc::sql::Dialect;
use serde_json::{json, Value as J};

/// constructs outside the AP alphabet: set operations, loop, literals, casts, std functions one at
/// a time, date / time / interval literals, open-ended take, s-string relations
pub const EXTRA: &[&str] = &[
    "from t | remove u",
    "from t | select {a, b} | remove (from u | select {a, d})",
    "from t | select {a, b} | intersect (from u | select {a, d})",
    "from t | intersect u",
    "from t | select {a} | group a (take 1) | intersect (from u | select {a} | group a (take 1))",
    "from t | select {a, b} | append (from u | select {a, d}) | group {a, b} (take 1)",
    "from t | select {a} | loop (filter a < 3 | select {a = a + 1})",
    "from [{a = 1, b = 'x'}, {a = 2, b = null}]",
    "from [{a = 1}] | join side:left (from [{a = 1, d = 2}]) (==a)",
    "from t | select {x = (a | as int), y = (b | as float), z = (a | as text)}",
    "from t | select {d = @2020-01-01, tm = @10:30:00, ts = @2020-01-01T10:30:00Z}",
    "from t | derive {e = @2020-01-01 + 2days, f = @2020-01-01 - 1years}",
    "from t | sort a | take 3..",
    "from t | sort a | take 2..4",
    "from t | take 5 | take 2..3",
    "from s\"SELECT * FROM t\" | select {a} | filter a > 1",
    "from s\"SELECT a, b FROM t\" | join u (==a) | select {b, u.d}",
    "from t | select {x = s\"RANDOM()\", y = s\"COALESCE({a}, {b})\"}",
    "from t | select {a, b} | group a (sort b | take 1)",
    "from t | group a (take 1)",
    "from t | select !{a}",
    "from t | select {a, b} | select !{a}",
    "from t | join side:full u (==a) | select {t.a, u.d}",
    "from t | join side:right u (==a) | select {t.a, u.d}",
    "from t | join u (==a) | join v=(from u) (t.a == v.a) | select {t.a, u.d, v.d}",
    "from t | window rolling:2 (sort a | derive s = sum b) | filter s > 1",
    "from t | derive r = rank a | filter r == 1 | select {a, r}",
    "from t | group a (sort b | derive {rn = row_number this}) | filter rn == 1",
    "from t | select {x = case [a > 1 => 'big', a == null => 'none', true => 'small']}",
    "from t | filter (a | in 1..3) && (b | in [1, 2, 3])",
    "from t | aggregate {c = count_distinct a, s = stddev a, l = concat_array b, an = any (a > 1), al = all (a > 1)}",
    "from t | select {f = f\"{a}-{b}\", l = a ?? b, n = -a, m = a % b, i = a // b, p = a ** 2}",
    "from t | filter b ~= 'x'",
    "from db.schema.tbl | select {`first name`, `select`} | filter `select` > 1",
    "from t | sort {-a, +b} | select {b} | take 3",
    "from t | sort a | select {b} | filter b > 1 | take 2 | derive c = b + 1 | sort {-c} | take 1",
    "let q = (from t | select {a, b})\nlet w = (from q | filter a > 1)\nfrom w | join q (==a) | select {w.b, q.a}",
    "from t | group {a} (aggregate {n = count this}) | join (from u | group {a} (aggregate {m = max d})) (==a)",
    "from t | derive x = a + 1 | group x (aggregate {n = count this}) | filter n > 1 | sort {-n}",
    "from t | select {a, b} | take 2 | append (from u | select {a, d} | take 2) | sort a",
    // "first row per group" after a pipeline split (DISTINCT ON in postgres / duckdb / clickhouse)
    "from e=t | take 100 | join s=u (==a) | group e.a (sort {-s.d} | take 1)",
    "from t | derive k = a + 1 | sort b | take 5 | group k (sort {-b} | take 1)",
    "from t | select {k = a, b} | sort b | take 5 | group k (sort b | take 1)",
    "from t | group a (aggregate {m = max b}) | join u (==a) | group m (sort u.d | take 1)",
    "from t | join u (==a) | group {t.a, u.d} (sort t.b | take 1) | sort d | take 3 | group d (sort a | take 1)",
    // a plain column computed from a window function, used in front of an aggregation
    "from t | derive {r = row_number a} | derive {x = r + 1} | aggregate {s = sum x}",
    "from t | group a (derive {share = b / (sum b)}) | group a (aggregate {m = max share})",
    "from t | derive {r = rank b} | derive {x = r * 2} | group x (aggregate {n = count this})",
    "from t | derive {r = lag 1 b} | derive {x = r + 1} | filter x > 1 | aggregate {n = count this}",
    "from t | derive {r = sum b} | derive {x = r - b} | sort x | take 2 | aggregate {m = min x}",
    // expressions that the resolver folds before the SQL stage sees them
    "from t | derive {y = case [false => 1, true => 2]}",
    "from t | derive {y = case [1 == 2 => a, 3 != 3 => b, true => a + b]} | filter y > 1",
    "from t | derive {y = case [false => 1]}",
    "from t | derive {y = case [true => a]}",
    "from t | filter (case [false => a > 1, true => b > 1]) | group (case [2 == 3 => a, true => b]) (aggregate {n = count this})",
    "from t | derive {y = null ?? a, z = a ?? null, w = (1 == 1) && (a > 1), v = false || (b > 1), u = !true}",
    "from t | derive {y = 1 + 2 * 3, z = -(-1), w = 'a' == 'a', v = 2 ** 3}",
    // row ranges beyond 32 bits
    "from t | take 4294967296",
    "from t | sort a | take 5000000000..6000000000",
    "from t | take 9223372036854775807",
    "from t | group a (sort b | take 4294967296)",
    "from t | select {x = a + 4294967296, y = 9223372036854775807}",
    // joined sub-pipelines without an alias: the outer pipeline names the inner table
    "from t | join (from u | derive {d = d + 1}) (==a) | select {t.b, u.d}",
    "from t | join side:left (from u | derive {d = -d}) (==a) | filter u.d > 1",
    "from t | join (from u | sort d | take 3) (==a) | derive {x = u.d + t.b}",
    "from t | join (from u | derive {d2 = d + 1}) (==a) | select {t.a, u.d, u.d2}",
    // a joined sub-pipeline that exposes the name `a` twice (recorded finding, see C16)
    "let q = (from t | select {a, b})\nfrom q | join u (==a) | join r=(from u | join l=q (u.d == l.b)) true | select {q.a, r.b}",
    "let q = (from t | select {a, b})\nfrom t | join r=(from u | join l=q (u.d == l.b)) (t.a == r.d) | select {t.a, r.d, r.b}",
    // a `let` relation read more than once, first as the bottom of a set operation
    "let q = (from t | filter a > 1 | select {a, b})\nfrom u | select {a, d} | append q | append q",
    "let q = (from t | filter a > 1 | select {a, b})\nfrom u | select {a, d} | append q | join q (==a) | select {u.a, q.b}",
    "let q = (from t | filter a > 1 | select {a, b})\nlet w = (from u | select {a, d} | append q)\nfrom u | join q (==a) | join w (==a) | select {u.d, q.b, w.a}",
    "let q = (from t | filter a > 1 | select {a, b})\nfrom u | select {a, d} | remove q | append q",
    "let q = (from t | filter a > 1 | select {a, b})\nfrom u | select {a, d} | intersect q | join q (==a)",
    "let q = (from t | select {a} | take 3)\nfrom q | select {a} | loop (join q (==a) | select {a = q.a + 1} | filter a < 5)",
    "let q = (from t | select {a} | take 3)\nfrom u | select {a} | loop (filter a < 3 | select {a = a + 1}) | append q | join q (==a)",
    // a table of the database named like a let-relation of a module, both read by one query (either order)
    "module mm { let t = (from src | take 3) }\nfrom t | join l = mm.t (==a) | select {t.a, l.b}",
    "module mm { let t = (from src | take 3) }\nfrom l = mm.t | join t (==a) | select {t.a, l.b}",
    "module mm { let t = (from src | take 3) }\nfrom t | append mm.t | join t2 = mm.t (==a)",
    // boolean aggregates as window functions; `remove` where one side has no known column list
    "from t | group a (derive {r = all (b > 0)})",
    "from t | group a (derive {r = any (b > 0)})",
    "from t | select {a, b} | remove u",
    "from t | remove (from u | select {a, d})",
];

const STD_CALLS: &[&str] = &[
    "math.abs a", "math.floor a", "math.ceil a", "math.pi", "math.exp a", "math.ln a", "math.log10 a", "math.log 2 a", "math.sqrt a", "math.degrees a", "math.radians a", "math.cos a", "math.acos a", "math.sin a", "math.asin a", "math.tan a", "math.atan a", "math.pow 2 a", "math.round 2 a",
    "text.lower b", "text.upper b", "text.ltrim b", "text.rtrim b", "text.trim b", "text.length b", "text.extract 1 2 b", "text.replace 'a' 'b' b", "text.starts_with 'a' b", "text.contains 'a' b", "text.ends_with 'a' b",
    "date.to_text '%Y-%m-%d' d", "date.to_text '%H:%M' d",
    "a | in 1..5", "a | as int", "tuple_every [a > 1, b > 1]",
];

/// expression kinds carrying a column (§) that is used nowhere else
const CARRIERS: &[&str] = &[
    "a | in [§, 5]",
    "case [§ > 1 => 1, true => 0]",
    "case [a > 1 => §, true => 0]",
    "s\"COALESCE({§}, 0)\"",
    "f\"{§}-x\"",
    "a + (§ * 2)",
    "math.abs §",
    "math.pow § 2",
    "§ ?? 0",
    "a | in §..5",
    "§ | as int",
    "-§",
    "a == §",
    "tuple_every [a > 1, § > 1]",
];
/// prefixes after which the rest of the pipeline needs (or does not need) a sub-query; all expose a, b, c
const CUTS: &[&str] = &[
    "from t | select {a, b, d}",
    "from t | select {a, b, d} | sort a | take 10",
    "from t | select {a, b, d} | group {a, b, d} (take 1)",
    "from t | group {a, b} (aggregate {d = sum d})",
    "from t | select {a, b, d} | derive {r = rank a} | filter r < 3",
    "from t | join u (==a) | select {t.a, t.b, d = u.d} | take 5",
    "let q = (from t | select {a, b, d} | sort d | take 10)\nfrom q",
    "from t | select {a, b, d} | append (from t | select {a, b, d}) | take 7",
];
/// where the carrier (¤) is used; only `a` (and the carrier's value) is read otherwise
const USES: &[&str] = &[
    "filter (¤) != null | select {a}",
    "derive {z = (¤)} | select {a, z}",
    "sort {(¤)} | select {a}",
    "group {a} (aggregate {m = max (¤)})",
    "select {a, z = (¤)} | take 3 | filter z != null",
    "derive {w = sum (¤)} | filter w != null | select {a}",
];

/// every carrier × cut × use, for the two columns that are not otherwise read
fn carrier_products() -> Vec<String> {
    let mut v = vec![];
    for cut in CUTS {
        for car in CARRIERS {
            for u in USES {
                for col in ["b", "d"] {
                    if col == "d" && !(car.contains("in [") || car.contains("case [§")) {
                        continue;
                    }
                    v.push(format!("{cut} | {}", u.replace('¤', &car.replace('§', col))));
                }
            }
        }
    }
    v
}

fn sources(tier: Tier) -> Vec<(String, J)> {
    let cfg = GenCfg {
        depth: 2,
        sources: tier.pick(vec![SrcKind::OpenT, SrcKind::LetClosed, SrcKind::LetSide], vec![SrcKind::OpenT, SrcKind::LetClosed, SrcKind::LetSide, SrcKind::Literal, SrcKind::SubClosed, SrcKind::LetSorted]),
        max_joins: tier.pick(1, 2),
        letters: tier.pick(Letters::Naming, Letters::Core),
    };
    let (progs, _) = enumerate(&[cfg]);
    let mut v: Vec<(String, J)> = progs.iter().map(|(p, ch, _)| (pr_program(p), json!({"driver":"AP","choices": ch}))).collect();
    for s in EXTRA {
        v.push((s.to_string(), json!({"driver":"extra"})));
    }
    for s in carrier_products() {
        v.push((s, json!({"driver":"carrier×cut×use"})));
    }
    for c in STD_CALLS {
        v.push((format!("from t | select {{x = ({c})}}"), json!({"driver":"std-call"})));
        v.push((format!("from t | select {{a, b, d}} | sort a | take 5 | filter ({c}) != null | select {{y = ({c})}}"), json!({"driver":"std-call-split"})));
    }
    for (n, s) in crate::seeds::integration_queries() {
        v.push((s, json!({"driver":"repo-query","seed": n})));
    }
    v
}

pub struct CaseOut {
    pub accepted: Vec<String>,
    pub bad: Vec<(String, String, String, String)>, // (key, dialect, msg, sql)
    pub rejected: u32,
    pub hash: u64,
    pub sqlparser_gaps: u32,
}

pub fn check_source(db: &Db, src: &str) -> CaseOut {
    let mut out = CaseOut { accepted: vec![], bad: vec![], rejected: 0, hash: 0, sqlparser_gaps: 0 };
    let rq = match guard(|| prqlc::prql_to_pl(src).and_then(prqlc::pl_to_rq)) {
        Ok(Ok(rq)) => rq,
        _ => return out,
    };
    let lets = let_relations(src);
    // the header of a repository query may name its own dialect: the option wins
    for d in all_dialects() {
        let r = rq.clone();
        let sql = match guard(|| prqlc::rq_to_sql(r, &opts(d))) {
            Err(_) => continue, // a panic is C12's finding
            Ok(Err(e)) => {
                out.rejected += 1;
                out.hash ^= fnv(&err_text(&e));
                continue;
            }
            Ok(Ok(s)) => s,
        };
        out.accepted.push(dname(d));
        out.hash = out.hash.rotate_left(5) ^ fnv(&sql);
        for (k, m) in check_sql_with(&sql, d, &lets) {
            // operators sqlparser's grammar for the dialect does not know (ClickHouse / MySQL `DIV`)
            if k == "does-not-parse" && m.contains("DIV") && matches!(d, Dialect::ClickHouse) {
                continue;
            }
            // gaps of sqlparser's own grammars: a parenthesised sub-query directly after FROM under the ANSI
            // grammar; ClickHouse string tokenisation of doubled quotes in long format strings
            if k == "does-not-parse" && ((d == Dialect::Ansi && m.contains("Expected: joined table")) || (d == Dialect::ClickHouse && m.contains("Expected close delimiter"))) {
                out.sqlparser_gaps += 1;
                continue;
            }
            out.bad.push((k, dname(d), m, sql.clone()));
        }
        // layer 3: the engine's own verdict for the two executable targets, when only t / u are read
        if matches!(d, Dialect::SQLite | Dialect::Generic) {
            if let Err(e) = db.prepare(&sql) {
                // a table the harness database lacks is not a verdict, unless the program itself defines it
                let missing_table = e.contains("no such table") && !lets.iter().any(|n| e.contains(&format!("no such table: {n}"))) && !e.contains("no such table: table_");
                let engine_gap = d == Dialect::Generic && (e.contains("near \"ALL\"") || e.contains("near \"OFFSET\"") || e.contains("no such function") || e.contains("near \"FULL\"") || e.contains("RIGHT and FULL OUTER JOINs") || e.contains("near \"DISTINCT\"") || e.contains("near \"INTERVAL\"") || e.contains("near \"'") || e.contains("circular reference") || (sql.contains(" OFFSET ") && !sql.contains("LIMIT")));
                let typed_literal_gap = d == Dialect::Generic && (sql.contains("DATE '") || sql.contains("TIME '") || sql.contains("TIMESTAMP '") || sql.contains("INTERVAL "));
                if !missing_table && !engine_gap && !typed_literal_gap {
                    out.bad.push(("engine-rejects".into(), dname(d), e, sql.clone()));
                }
            }
        }
    }
    out
}

/// cause predicates of known findings, from the observable (key, dialect, message, SQL)
fn cause(key: &str, d: &str, msg: &str, sql: &str, src: &str) -> String {
    let _ = (msg, src);
    if key == "engine-rejects" {
        if msg.contains("no such column") && sql.contains("ORDER BY") && (src.contains("sort") && src.contains("join")) {
            return "orderby-names-relation-out-of-scope-after-join".into();
        }
        if msg.contains("UNION ALL do not have the same number") {
            return "append-branches-projected-differently".into();
        }
        if msg.contains("no such column: _expr_") {
            return "orderby-helper-undefined-for-wildcard-column".into();
        }
    }
    if key == "engine-rejects" && d == "sqlite" && msg.contains("circular reference") && sql.contains("WITH RECURSIVE") {
        return "loop-body-reads-recursive-table-inside-subquery:sqlite".into();
    }
    if src.contains("join u (==a) | join r=(from u | join l=q (u.d == l.b))") && (key == "qualifier-not-in-scope" || key == "engine-rejects" || key == "column-not-in-known-relation") {
        return "joined-sub-pipeline-exposes-a-name-twice".into();
    }
    if key == "qualifier-not-in-scope" && sql.contains("ORDER BY") && src.contains("sort") && src.contains("join") {
        return "orderby-names-relation-out-of-scope-after-join".into();
    }
    if key == "set-operation-arity" && (src.contains("append") || src.contains("intersect") || src.contains("remove")) {
        return format!("set-operation-branches-projected-differently:{}", if sql.contains("INTERSECT") { "intersect" } else if sql.contains("EXCEPT") { "except" } else { "union" });
    }
    if key == "set-operation-arity" && sql.contains("INTERSECT") && src.contains("join") {
        return "join-rewritten-to-intersect-of-different-arity".into();
    }
    // sqlite renders `all` / `any` as `MIN(x) > 0` / `MAX(x) > 0`; used as a window function the OVER clause is
    // appended to the comparison instead of the aggregate
    if (key == "does-not-parse" || key == "engine-rejects") && d == "sqlite" && (sql.contains(") > 0 OVER (")) {
        return "boolean-aggregate-as-window-function-over-after-comparison:sqlite".into();
    }
    // `remove` (and its anti-join fallback) where one side is only known through its wildcard: the wildcard itself
    // is compared (`t.* = table_0.a`, `b.* IS NULL`)
    if (key == "does-not-parse" || key == "engine-rejects") && src.contains("remove") && (sql.contains(".* = ") || sql.contains(".* IS NULL") || sql.split(" = ").skip(1).any(|r| r.split_whitespace().next().map(|w| w.ends_with(".*")).unwrap_or(false))) {
        return "remove-over-open-relation-compares-the-wildcard".into();
    }
    if key == "does-not-parse" && d == "ansi" && msg.contains("found: _") {
        return "generated-helper-name-not-an-ansi-identifier".into();
    }
    if (key == "empty-projection" || key == "does-not-parse") && (sql.contains("SELECT FROM") || sql.contains("SELECT  FROM")) {
        return format!("zero-column-select:{d}");
    }
    if key == "engine-rejects" && d == "sqlite" && msg.contains("no such function: STDDEV") {
        return "function-not-available-in-sqlite:STDDEV".into();
    }
    if key == "engine-rejects" && d == "sqlite" && sql.contains("INTERVAL ") {
        return "interval-arithmetic-emitted-for-sqlite".into();
    }
    if key == "unknown-column-in-fully-known-select" && d == "mssql" && (msg.contains("`true`") || msg.contains("`false`")) {
        return "boolean-literal-emitted-for-mssql".into();
    }
    // T-SQL has no boolean values: a comparison cannot be a projected item (`SELECT a = b AS z` is alias syntax there)
    if key == "does-not-parse" && d == "mssql" && msg.contains("found: AS") && {
        let up = sql.to_uppercase();
        up.split(" AS ").any(|item| {
            let tail: String = item.chars().rev().take(40).collect::<String>().chars().rev().collect();
            [" = ", " <> ", " < ", " > ", " <= ", " >= ", " IN (", " BETWEEN ", " IS NULL", " IS NOT NULL", " LIKE "].iter().any(|op| tail.contains(op))
        })
    } {
        return "mssql-boolean-expression-as-projected-item".into();
    }
    format!("{key}:{d}")
}

pub fn run(tier: Tier) -> i32 {
    let mut run = Run::new("C07", tier);
    let srcs = sources(tier);
    let outs = par_map(&srcs, || {
        let db = Db::new();
        let _ = db.exec_batch("ALTER TABLE t ADD COLUMN d; CREATE TABLE tbl(a, b);");
        db
    }, |db, (s, _)| check_source(db, s));
    let mut per_dialect: std::collections::BTreeMap<String, u64> = Default::default();
    for ((s, meta), o) in srcs.iter().zip(outs) {
        run.count("programs", 1);
        if o.accepted.is_empty() && o.rejected == 0 {
            run.count("programs_not_accepted_by_resolver", 1);
            continue;
        }
        run.count("statements_rejected_by_sql_stage_(accepted_outcome)", o.rejected as u64);
        run.count("statements_outside_sqlparser_grammar_(not_decided)", o.sqlparser_gaps as u64);
        run.validated += o.accepted.len() as u64;
        for d in &o.accepted {
            *per_dialect.entry(d.clone()).or_insert(0) += 1;
        }
        run.observe(o.hash);
        if o.bad.is_empty() && run.samples.len() < 5 && o.accepted.len() == 12 && s.len() > 50 {
            run.sample(json!({"prql": s, "dialects_parsed_and_bound": o.accepted}));
        }
        for (k, d, m, sql) in o.bad {
            let mut det = meta.clone();
            det["prql"] = json!(s);
            det["dialect"] = json!(d);
            det["sql"] = json!(sql);
            det["detail"] = json!(m);
            run.violate(Some(cause(&k, &d, &m, &sql, s)), format!("[{d}] {} → {sql} :: {k}: {m}", s.trim().replace('\n', " | ")), det);
        }
    }
    run.states = srcs.len() as u64;
    run.transitions = run.validated;
    run.set("statements_checked_per_dialect", json!(per_dialect));
    run.set("bounds", json!({"abstract_programs_depth": 2, "extra_constructs": EXTRA.len(), "std_calls": STD_CALLS.len(), "repo_queries": "all integration queries", "dialects": 12}));
    run.set("rule", json!("every program the resolver accepts × 12 dialects: where rq_to_sql returns Ok, the text must parse as exactly one statement under sqlparser's grammar for that dialect and pass the reference binder (CTEs defined before use and in scope, unique FROM aliases, qualified references name a relation in scope, columns of relations with a known column list exist, non-empty projection, set operations of equal known arity); sqlite and generic output is additionally prepared by SQLite. A compile error is the accepted outcome for inexpressible constructs."));
    run.assume("sqlparser's grammars are more liberal than the real engines of the 10 non-executable dialects: agreement is necessary, not sufficient");
    run.assume("for sql.generic, engine rejections caused by standard SQL the bundled SQLite lacks (INTERSECT/EXCEPT ALL, OFFSET without LIMIT, FULL JOIN, INTERVAL, missing functions) are not verdicts");
    run.finish()
}

pub fn replay(v: &J) -> i32 {
    let src = v["prql"].as_str().unwrap_or("");
    let db = Db::new();
    let _ = db.exec_batch("ALTER TABLE t ADD COLUMN d; CREATE TABLE tbl(a, b);");
    let o = check_source(&db, src);
    for (k, d, m, sql) in &o.bad {
        println!("FAIL [{k}/{d}] {m} :: {sql}");
    }
    if o.bad.is_empty() {
        println!("OK ({} dialects)", o.accepted.len());
        0
    } else {
        1
    }
}
