//! C11, schedules: exhaustive exploration of the interleavings of concurrent public calls at the
//! scheduling points of seam S, with a preemption bound (see `sch.rs`).
//!
//! Scenario = threads × calls; every execution starts from "nothing initialised yet" (the lazily built
//! statics are re-armed), each call's observation must equal what that call returns alone in a pristine
//! process; no deadlock, every thread terminates. Exploration runs in worker processes (the hook of the
//! seam is process-global): the worker enumerates the first-level deviations itself and explores its
//! share of their subtrees.

#![cfg(prqlc_verif)]

use crate::c11::PROBES;
use crate::engine::{self, Ctx};
use crate::iso::guard;
use crate::report::{fnv, par_map, Run, Tier};
use crate::sch::{self, Body};
use prqlc::sql::Dialect;
use prqlc::{Options, Target};
use serde_json::{json, Value as J};
use std::collections::BTreeMap;

const DIALECT_SENSITIVE: &str = "from logs | select {host, tag, percent, identity, `system`, `user`, `my col`, x = a // b} | filter tag == 'x' | sort {-percent} | take 3";

pub const CALLS: &[&str] = &[
    "compile-cte-names",        // 0: several CTEs, generated names
    "compile-splits-mssql",     // 1: group/window helper columns under another dialect
    "compile-resolve-error",    // 2: error text with candidate list
    "compile-names-redshift",   // 3: dialect-specific keyword set
    "compile-names-postgres",   // 4
    "stages-fmt-rq",            // 5: prql_to_pl, pl_to_prql, pl_to_rq → JSON
    "logged-compile",           // 6: log_start; compile; log_finish
    "compile-signature",        // 7: signature comment (compiler version cell)
    "compile-lex-error",        // 8
    "compile-sql-error-sqlite", // 9
    "compile-append-loop",      // 10: set operations, relation literal
    "compile-layered-functions-34", // 11: user functions layered on user functions, 34 deep
    "compile-layered-functions-36", // 12
];

/// `f0 = x -> x + 1`, `f{i} = x -> (f{i-1} x) * 2`, … and a query using the last one
fn layered_functions(depth: usize, table: &str) -> String {
    let mut s = String::from("let f0 = x -> x + 1\n");
    for i in 1..=depth {
        s.push_str(&format!("let f{i} = x -> (f{} x) * 2\n", i - 1));
    }
    s.push_str(&format!("from {table} | derive y = (f{depth} a) | take 3"));
    s
}

fn compile_obs(src: &str, o: &Options) -> String {
    match guard(|| prqlc::compile(src, o)) {
        Ok(Ok(s)) => format!("OK {s}"),
        Ok(Err(e)) => format!("ERR {e}"),
        Err(p) => format!("PANIC at {}: {}", p.site, p.msg),
    }
}

pub fn call(k: usize) -> String {
    let o = Options::default().with_display(prqlc::DisplayOptions::Plain).with_signature_comment(false);
    match k {
        0 => compile_obs(PROBES[0], &o),
        1 => compile_obs(PROBES[6], &o.clone().with_target(Target::Sql(Some(Dialect::MsSql)))),
        2 => compile_obs(PROBES[3], &o),
        3 => compile_obs(DIALECT_SENSITIVE, &o.clone().with_target(Target::Sql(Some(Dialect::Redshift)))),
        4 => compile_obs(DIALECT_SENSITIVE, &o.clone().with_target(Target::Sql(Some(Dialect::Postgres)))),
        5 => {
            let ob = crate::c11::observe(PROBES[1]);
            format!("{}\n--rq\n{}\n--fmt\n{}", ob.sql, ob.rq, ob.fmt)
        }
        6 => {
            let _ = guard(prqlc::debug::log_start);
            let r = compile_obs(PROBES[5], &o);
            let _ = guard(prqlc::debug::log_finish);
            r
        }
        7 => compile_obs(PROBES[8], &o.clone().with_signature_comment(true)),
        8 => compile_obs("from t | select {a ^ b}", &o),
        9 => compile_obs(PROBES[11], &o),
        10 => compile_obs(PROBES[7], &o),
        11 => compile_obs(&layered_functions(34, "invoices"), &o),
        12 => compile_obs(&layered_functions(36, "customers"), &o),
        _ => String::new(),
    }
}

/// threads × calls
pub fn scenarios(tier: Tier) -> Vec<Vec<Vec<usize>>> {
    let mut v = vec![];
    // two threads, one call each: every unordered pair (a call also against itself)
    let n = 11;
    for a in 0..n {
        for b in a..n {
            v.push(vec![vec![a], vec![b]]);
        }
    }
    // resource-like dimensions: deep expansion in both threads, and next to an ordinary call
    v.push(vec![vec![11], vec![12]]);
    v.push(vec![vec![11], vec![0]]);
    // two threads, two calls each
    for (x, y) in [([0, 3], [4, 2]), ([6, 0], [0, 6]), ([7, 1], [5, 7]), ([3, 4], [4, 3]), ([2, 0], [8, 0])] {
        v.push(vec![x.to_vec(), y.to_vec()]);
    }
    // three threads, one call each
    for t in [[0, 3, 4], [6, 6, 0], [7, 5, 1], [0, 0, 0], [2, 9, 10]] {
        v.push(t.iter().map(|c| vec![*c]).collect());
    }
    if tier == Tier::Thorough {
        for t in [[1, 3, 6], [4, 7, 0], [5, 5, 2], [3, 3, 4]] {
            v.push(t.iter().map(|c| vec![*c]).collect());
        }
        v.push(vec![vec![0, 3, 7], vec![4, 6, 1]]);
    }
    v
}

fn bodies(sc: &[Vec<usize>]) -> Vec<Body> {
    sc.iter()
        .map(|calls| {
            let calls = calls.clone();
            Box::new(move || calls.iter().map(|k| call(*k)).collect::<Vec<String>>()) as Body
        })
        .collect()
}

#[derive(Default)]
struct Acc {
    executions: u64,
    points: u64,
    max_depth: usize,
    max_steps: usize,
    max_preemptions: usize,
    /// (thread, call index) → output → (count, choices of the first execution giving it)
    outputs: BTreeMap<(usize, usize), BTreeMap<String, (u64, Vec<usize>)>>,
    labels: BTreeMap<String, u64>,
    switch_points: BTreeMap<String, u64>,
    thread_errors: Vec<(String, Vec<usize>)>,
}

impl Acc {
    fn merge(&mut self, o: &Acc) {
        self.executions += o.executions;
        self.max_steps = self.max_steps.max(o.max_steps);
        self.max_preemptions = self.max_preemptions.max(o.max_preemptions);
        for (k, m) in &o.outputs {
            let e = self.outputs.entry(*k).or_default();
            for (out, (n, ch)) in m {
                let x = e.entry(out.clone()).or_insert((0, ch.clone()));
                x.0 += n;
            }
        }
        for (l, n) in &o.labels {
            *self.labels.entry(l.clone()).or_insert(0) += n;
        }
        for (l, n) in &o.switch_points {
            *self.switch_points.entry(l.clone()).or_insert(0) += n;
        }
        self.thread_errors.extend(o.thread_errors.iter().cloned());
    }
}

fn one(ctx: &mut Ctx, sc: &[Vec<usize>], fine: bool, acc: &mut Acc) {
    let out = sch::run_threads(ctx, bodies(sc), fine);
    acc.executions += 1;
    acc.max_steps = acc.max_steps.max(out.steps);
    let pre = out.switches.iter().filter(|s| s.4).count();
    acc.max_preemptions = acc.max_preemptions.max(pre);
    for (l, n) in &out.labels {
        *acc.labels.entry(l.to_string()).or_insert(0) += n;
    }
    for s in &out.switches {
        if s.4 {
            *acc.switch_points.entry(s.3.to_string()).or_insert(0) += 1;
        }
    }
    let choices = ctx.choices();
    for (t, r) in out.results.iter().enumerate() {
        match r {
            Ok(obs) => {
                for (k, o) in obs.iter().enumerate() {
                    let e = acc.outputs.entry((t, k)).or_default().entry(o.clone()).or_insert((0, choices.clone()));
                    e.0 += 1;
                }
            }
            Err(e) => acc.thread_errors.push((format!("thread {t}: {e}"), choices.clone())),
        }
    }
}

/// `mc c11s run <scenario> <devs> <shard> <of> <tier> <fine|coarse>` — prints one JSON line
/// `mc c11s ref <call>`                                — the call alone in this (pristine) process
/// `mc c11s replay <scenario> <tier> <fine|coarse> <choices…>`
pub fn worker(args: &[String]) -> i32 {
    match args.first().map(|s| s.as_str()) {
        Some("ref") => {
            let k: usize = args[1].parse().unwrap();
            println!("{}", json!({"ref": call(k)}));
            0
        }
        Some("run") => {
            let si: usize = args[1].parse().unwrap();
            let devs: usize = args[2].parse().unwrap();
            let shard: usize = args[3].parse().unwrap();
            let of: usize = args[4].parse().unwrap();
            let tier = if args.get(5).map(|s| s.as_str()) == Some("thorough") { Tier::Thorough } else { Tier::Quick };
            let fine = args.get(6).map(|s| s.as_str()) == Some("fine");
            let sc = scenarios(tier)[si].clone();
            let mut acc = Acc::default();
            // the harness owns every choice: the default schedule, run twice, gives the same trace and observations
            let mut t0 = vec![];
            for _ in 0..2 {
                let mut ctx = Ctx::new(vec![], 0);
                let mut a = Acc::default();
                one(&mut ctx, &sc, fine, &mut a);
                t0.push((ctx.trace.clone(), a.outputs.iter().map(|(k, v)| (*k, v.keys().cloned().collect::<Vec<_>>())).collect::<Vec<_>>()));
            }
            if t0[0] != t0[1] {
                println!("{}", json!({"machinery": "the default schedule is not reproducible: the harness does not own every choice"}));
                return 2;
            }
            // Level 0: every execution without a deviation (free choices only) — shard 0 keeps them. Each of their
            // deviation points × alternatives is the root of a subtree (first deviation fixed); the subtrees
            // partition everything else and are dealt round-robin to the shards.
            let mut roots: Vec<Vec<engine::Point>> = vec![];
            let mut seen_roots: std::collections::BTreeSet<Vec<usize>> = Default::default();
            let mut cap_hit = false;
            {
                let mut zero = Acc::default();
                let st = engine::explore(
                    0,
                    None,
                    |ctx| {
                        one(ctx, &sc, fine, &mut zero);
                        Some(ctx.trace.clone())
                    },
                    |tr, _| {
                        for i in 0..tr.len() {
                            if !tr[i].dev {
                                continue;
                            }
                            for alt in 1..tr[i].arity {
                                let mut root = tr[..=i].to_vec();
                                root[i].choice = alt;
                                if seen_roots.insert(root.iter().map(|p| p.choice).collect()) {
                                    roots.push(root);
                                }
                            }
                        }
                    },
                );
                if shard == 0 {
                    acc = zero;
                    acc.points = st.points;
                    acc.max_depth = st.max_depth;
                }
            }
            if devs >= 1 {
                for (i, root) in roots.iter().enumerate() {
                    if i % of != shard {
                        continue;
                    }
                    let st = engine::explore_below(devs, root.clone(), Some(400_000), |ctx| {
                        one(ctx, &sc, fine, &mut acc);
                        Some(())
                    });
                    acc.points += st.points;
                    acc.max_depth = acc.max_depth.max(st.max_depth);
                    cap_hit |= st.cap_hit;
                }
            }
            let outputs: Vec<J> = acc
                .outputs
                .iter()
                .map(|((t, k), m)| json!({"thread": t, "call": k, "variants": m.iter().map(|(o, (n, ch))| json!({"output": o, "count": n, "choices": ch})).collect::<Vec<_>>()}))
                .collect();
            println!(
                "{}",
                json!({"scenario": si, "executions": acc.executions, "points": acc.points, "max_depth": acc.max_depth, "max_steps": acc.max_steps,
                   "max_preemptions": acc.max_preemptions, "roots": roots.len(), "cap_hit": cap_hit, "outputs": outputs, "labels": acc.labels,
                   "switch_points": acc.switch_points, "thread_errors": acc.thread_errors})
            );
            0
        }
        Some("replay") => {
            let si: usize = args[1].parse().unwrap();
            let tier = if args[2] == "thorough" { Tier::Thorough } else { Tier::Quick };
            let fine = args[3] == "fine";
            let choices: Vec<usize> = args[4..].iter().filter_map(|s| s.parse().ok()).collect();
            let sc = scenarios(tier)[si].clone();
            let mut ctx = Ctx::from_choices(&choices);
            let out = sch::run_threads(&mut ctx, bodies(&sc), fine);
            if let Some(d) = &ctx.diverged {
                println!("{}", json!({"machinery": d}));
                return 2;
            }
            println!("{}", json!({"results": out.results.iter().map(|r| match r { Ok(v) => json!(v), Err(e) => json!({"error": e}) }).collect::<Vec<_>>(),
                "switches": out.switches.iter().map(|s| json!({"step": s.0, "from": s.1, "to": s.2, "at": s.3, "preemption": s.4})).collect::<Vec<_>>()}));
            0
        }
        _ => 2,
    }
}

fn spawn_json(exe: &std::path::Path, args: &[String]) -> (Option<J>, String) {
    let o = std::process::Command::new(exe).arg("c11s").args(args).env_remove("PRQL_VERSION_OVERRIDE").stderr(std::process::Stdio::null()).output();
    match o {
        Ok(o) => (String::from_utf8_lossy(&o.stdout).lines().filter_map(|l| serde_json::from_str::<J>(l).ok()).last(), format!("{:?}", o.status)),
        Err(e) => (None, e.to_string()),
    }
}

/// The schedule part of the C11 run. Returns Err(2) on a machinery failure.
pub fn run_part(run: &mut Run, tier: Tier) -> Result<(), i32> {
    let exe = crate::report::worker_exe();
    // reference: each call alone in a pristine process
    let refs: Vec<String> = par_map(&(0..CALLS.len()).collect::<Vec<_>>(), || (), |_, k| {
        spawn_json(&exe, &["ref".into(), k.to_string()]).0.and_then(|v| v["ref"].as_str().map(|s| s.to_string())).unwrap_or_else(|| "<reference process failed>".into())
    });
    if refs.iter().any(|r| r == "<reference process failed>") {
        eprintln!("MACHINERY ERROR: a reference process of the schedule part failed");
        return Err(2);
    }
    let scs = scenarios(tier);
    // jobs: (scenario, preemption bound, shard, of, fine granularity)
    let mut jobs: Vec<(usize, usize, usize, usize, bool)> = vec![];
    for (si, sc) in scs.iter().enumerate() {
        let threads = sc.len();
        let calls: usize = sc.iter().map(|t| t.len()).sum();
        let pair = threads == 2 && calls == 2;
        let deep = sc.iter().flatten().any(|c| *c >= 11);
        let mut push = |devs: usize, of: usize, fine: bool| {
            for s in 0..of {
                jobs.push((si, devs, s, of, fine));
            }
        };
        match tier {
            Tier::Quick => {
                // locks, first initialisations, name generation as scheduling points: one preemption everywhere,
                // two for a fifth of the pairs; every id generation as well: one preemption for a sixth + the deep ones
                push(1, 1, false);
                if pair && !deep && (sc[0][0] + sc[1][0]) % 5 == 0 {
                    push(2, 1, false);
                }
                if deep {
                    push(1, 8, true);
                } else if si % 6 == 0 {
                    push(1, 2, true);
                }
            }
            Tier::Thorough => {
                push(if pair { 3 } else { 2 }, 8, false);
                push(1, 4, true);
                if si % 6 == 0 && !deep {
                    push(2, 16, true);
                }
            }
        }
    }
    let outs = par_map(&jobs, || (), |_, (si, devs, s, of, fine)| {
        spawn_json(&exe, &["run".into(), si.to_string(), devs.to_string(), s.to_string(), of.to_string(), tier.name().into(), if *fine { "fine".into() } else { "coarse".into() }])
    });
    let mut labels: BTreeMap<String, u64> = BTreeMap::new();
    let mut switch_points: BTreeMap<String, u64> = BTreeMap::new();
    let mut reported: std::collections::BTreeSet<String> = Default::default();
    let mut bounds_done: BTreeMap<String, u64> = BTreeMap::new();
    for ((si, devs, s, _of, fine), (v, status)) in jobs.iter().zip(outs) {
        let gran = if *fine { "fine" } else { "coarse" };
        let sc = &scs[*si];
        let names: Vec<Vec<&str>> = sc.iter().map(|t| t.iter().map(|c| CALLS[*c]).collect()).collect();
        let Some(v) = v else {
            eprintln!("MACHINERY ERROR: schedule worker for scenario {si} {names:?} shard {s} died ({status})");
            return Err(2);
        };
        if let Some(m) = v["machinery"].as_str() {
            eprintln!("MACHINERY ERROR: scenario {si} {names:?}: {m}");
            return Err(2);
        }
        if let Some(why) = v["abort"].as_str() {
            let key = format!("schedule-{}", why.split(':').next().unwrap_or("abort"));
            if reported.insert(format!("{key}{si}")) {
                run.violate(Some(key), format!("schedules of {names:?}: {why}"), json!({"driver":"SCH","scenario": si, "tier": tier.name(), "granularity": gran, "calls": names, "choices": v["choices"], "detail": why}));
            }
            continue;
        }
        let ex = v["executions"].as_u64().unwrap_or(0);
        run.validated += ex;
        run.transitions += v["points"].as_u64().unwrap_or(0);
        run.count("schedules:executions", ex);
        run.count("schedules:choice_points_met", v["points"].as_u64().unwrap_or(0));
        *bounds_done.entry(format!("{gran}:preemptions<={devs}")).or_insert(0) += ex;
        if v["cap_hit"].as_bool() == Some(true) {
            run.exhaustive = false;
            run.assume(&format!("schedules: scenario {si} {names:?} hit the execution cap of a shard at preemption bound {devs}"));
        }
        if *s == 0 && !*fine {
            run.count("schedules:scenarios", 1);
            run.count("schedules:scheduling_steps_in_longest_execution_(sum_over_scenarios)", v["max_steps"].as_u64().unwrap_or(0));
        }
        for (l, n) in v["labels"].as_object().cloned().unwrap_or_default() {
            *labels.entry(l).or_insert(0) += n.as_u64().unwrap_or(0);
        }
        for (l, n) in v["switch_points"].as_object().cloned().unwrap_or_default() {
            *switch_points.entry(l).or_insert(0) += n.as_u64().unwrap_or(0);
        }
        for e in v["thread_errors"].as_array().cloned().unwrap_or_default() {
            let key = "schedule-thread-died".to_string();
            if reported.insert(format!("{key}{si}")) {
                run.violate(Some(key), format!("schedules of {names:?}: {}", e[0]), json!({"driver":"SCH","scenario": si, "tier": tier.name(), "granularity": gran, "calls": names, "choices": e[1]}));
            }
        }
        for o in v["outputs"].as_array().cloned().unwrap_or_default() {
            let (t, k) = (o["thread"].as_u64().unwrap_or(0) as usize, o["call"].as_u64().unwrap_or(0) as usize);
            let c = sc[t][k];
            for var in o["variants"].as_array().cloned().unwrap_or_default() {
                let out = var["output"].as_str().unwrap_or("");
                run.observe(fnv(&format!("sch{c}{out}")));
                if out != refs[c] {
                    let key = format!("concurrent-call-differs-from-sequential:{}", CALLS[c]);
                    if reported.insert(format!("{key}{si}")) {
                        let a: String = refs[c].chars().take(300).collect();
                        let b: String = out.chars().take(300).collect();
                        run.violate(
                            Some(key),
                            format!("threads {names:?}: call `{}` of thread {t} returns, under the schedule {:?} ({} of the explored executions), {b:?} — alone in a process {a:?}", CALLS[c], var["choices"], var["count"]),
                            json!({"driver":"SCH","scenario": si, "tier": tier.name(), "granularity": gran, "calls": names, "thread": t, "call": CALLS[c], "choices": var["choices"], "expected": refs[c], "got": out}),
                        );
                    }
                }
            }
        }
    }
    run.set("schedule_points_by_label", json!(labels));
    run.set("schedule_preemptions_by_point", json!(switch_points));
    run.set("schedule_executions_by_preemption_bound", json!(bounds_done));
    run.set("schedule_scenarios", json!(scs.iter().map(|sc| sc.iter().map(|t| t.iter().map(|c| CALLS[*c]).collect::<Vec<_>>()).collect::<Vec<_>>()).collect::<Vec<_>>()));
    Ok(())
}

pub fn replay(v: &J) -> i32 {
    let exe = crate::report::worker_exe();
    let si = v["scenario"].as_u64().unwrap_or(0);
    let tier = v["tier"].as_str().unwrap_or("quick").to_string();
    let mut args: Vec<String> = vec!["replay".into(), si.to_string(), tier, v["granularity"].as_str().unwrap_or("coarse").to_string()];
    for c in v["choices"].as_array().cloned().unwrap_or_default() {
        args.push(c.as_u64().unwrap_or(0).to_string());
    }
    let (out, status) = spawn_json(&exe, &args);
    let Some(out) = out else {
        println!("replay process died or deadlocked: {status}");
        return 1;
    };
    println!("{}", serde_json::to_string_pretty(&out).unwrap());
    if out.get("abort").is_some() {
        println!("VIOLATION reproduced: {}", out["abort"]);
        return 1;
    }
    let (t, call) = (v["thread"].as_u64().unwrap_or(0) as usize, v["call"].as_str().unwrap_or(""));
    let expected = v["expected"].as_str().unwrap_or("");
    let got_now: Vec<String> = out["results"][t].as_array().map(|a| a.iter().map(|x| x.as_str().unwrap_or("").to_string()).collect()).unwrap_or_default();
    if got_now.iter().any(|g| g == expected) && !got_now.iter().any(|g| Some(g.as_str()) == v["got"].as_str()) {
        println!("call `{call}` of thread {t} now returns the sequential result under this schedule");
        0
    } else {
        println!("VIOLATION reproduced: call `{call}` of thread {t} differs from its sequential result under this schedule");
        1
    }
}
