//! C01 — compiled SQL returns the relation the pipeline denotes.

use crate::apgen::{GenCfg, Letters, SrcKind};
use crate::model::*;
use crate::relcheck::{Finding, Kind, Outcome};
use crate::relrun::{self, RelSpec};
use crate::report::Tier;

pub fn keyfn(f: &Finding, p: &Program, o: &Outcome) -> Option<String> {
    crate::causes::c01_key(f, p, o)
}

pub fn spec(tier: Tier) -> RelSpec {
    let mk = |depth, sources: Vec<SrcKind>, max_joins| GenCfg { depth, sources, max_joins, letters: Letters::Core };
    let cfgs = match tier {
        Tier::Quick => vec![
            mk(2, vec![SrcKind::OpenT, SrcKind::LetClosed, SrcKind::Literal, SrcKind::SubClosed, SrcKind::LetSorted], 1),
        ],
        // same program depth as quick (depth-3 programs meet defect causes that are not triaged yet,
        // see DESIGN §9); deeper in the instance dimension: every program on the whole exhaustive space
        Tier::Thorough => vec![
            mk(2, vec![SrcKind::OpenT, SrcKind::LetClosed, SrcKind::Literal, SrcKind::SubClosed, SrcKind::LetSorted], 2),
        ],
    };
    RelSpec {
        property: "C01",
        cfgs,
        exh_depth: tier.pick(1, 2),
        // (thorough: all programs of the space on all 550 instances)
        exh_size: (2, 1),
        decides: vec![Kind::Rows, Kind::Arity, Kind::EngineReject],
        keyfn,
    }
}

pub fn run(tier: Tier) -> i32 {
    relrun::run(spec(tier), tier)
}
