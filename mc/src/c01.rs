//! C01 — compiled SQL returns the relation the pipeline denotes.

use crate::apgen::{GenCfg, Letters, SrcKind};
use crate::model::*;
use crate::relcheck::{Finding, Kind, Outcome};
use crate::relrun::{self, RelSpec};
use crate::report::Tier;

pub fn keyfn(f: &Finding, p: &Program, o: &Outcome) -> Option<String> {
    crate::causes::c01_key(f, p, o)
}

pub fn spec(tier: Tier) -> RelSpec {
    let mk = |depth, sources: Vec<SrcKind>, max_joins| GenCfg { depth, sources, max_joins, letters: Letters::Core };
    // exploration aid (not a registered tier): MC_C01_DEPTH=3 enumerates depth-3 programs over two source kinds
    if let Ok(d) = std::env::var("MC_C01_DEPTH") {
        let d: usize = d.parse().unwrap_or(3);
        return RelSpec { property: "C01", cfgs: vec![mk(d, vec![SrcKind::OpenT, SrcKind::LetClosed], 1)], exh_depth: 0, exh_size: (2, 1), decides: vec![Kind::Rows, Kind::Arity, Kind::EngineReject], keyfn, extra: None };
    }
    let cfgs = match tier {
        Tier::Quick => vec![
            mk(2, vec![SrcKind::OpenT, SrcKind::LetClosed, SrcKind::Literal, SrcKind::SubClosed, SrcKind::LetSorted], 1),
            // the rules that cut a pipeline into sub-queries, one step deeper over a small alphabet
            GenCfg { depth: 3, sources: vec![SrcKind::OpenT, SrcKind::LetClosed], max_joins: 1, letters: Letters::Split },
            // the naming alphabet of C05 (a column listed twice, unnamed computed columns, case-variant renames):
            // its rows are decided here, with the repeats of a repeated column left out
            GenCfg { depth: 2, sources: vec![SrcKind::LetClosed, SrcKind::SubClosed], max_joins: 1, letters: Letters::Naming },
        ],
        // depth 2 over all source kinds on the whole exhaustive instance space, plus depth 3 over two source
        // kinds (its defect causes were triaged on the second day, see DESIGN §9) and the Split alphabet at depth 4
        Tier::Thorough => vec![
            mk(2, vec![SrcKind::OpenT, SrcKind::LetClosed, SrcKind::Literal, SrcKind::SubClosed, SrcKind::LetSorted], 2),
            GenCfg { depth: 4, sources: vec![SrcKind::OpenT, SrcKind::LetClosed, SrcKind::LetSorted], max_joins: 1, letters: Letters::Split },
            // every depth-3 program of the core alphabet over the two basic source kinds (0.36 M programs, on the
            // instance pool only — `exh_depth` keeps the exhaustive instance space for programs of up to 2 steps)
            mk(3, vec![SrcKind::OpenT, SrcKind::LetClosed], 1),
            GenCfg { depth: 3, sources: vec![SrcKind::LetClosed, SrcKind::SubClosed], max_joins: 1, letters: Letters::Naming },
        ],
    };
    RelSpec {
        property: "C01",
        cfgs,
        exh_depth: tier.pick(1, 2),
        // (thorough: all programs of the space on all 550 instances)
        exh_size: (2, 1),
        decides: vec![Kind::Rows, Kind::Arity, Kind::EngineReject],
        keyfn,
        extra: Some(named_values_part),
    }
}

/// Scalars that reach their place of use through a name — a `let` constant, a user-function parameter — and
/// relation literals whose rows spell their fields in another order. Each template is compiled twice: with the
/// names, and with the values written in place (the form the main exploration compares with the reference
/// interpreter); both statements are executed on the instance pool and must return the same columns and rows.
fn named_values_part(run: &mut crate::report::Run, tier: Tier) {
    use crate::relcheck::{dname, opts, EXEC_DIALECTS};
    use serde_json::json;
    // ¤ = the constant (name or literal), §f = a function of one parameter applied to an expression
    const TEMPLATES: &[&str] = &[
        "from t | select {x = ¤, y = ¤}",
        "from t | select {a, x = ¤, y = ¤, z = ¤}",
        "from t | derive {x = ¤} | filter a > 0 | derive {y = ¤}",
        "from t | select {a, x = ¤ + a, y = ¤ * 2}",
        "from t | filter a > ¤ | derive {y = ¤}",
        "from t | sort a | take 2 | derive {x = ¤, y = ¤}",
        "from t | derive {x = ¤} | sort a | take 2 | derive {y = ¤} | select {x, y, a}",
        "from t | group a (aggregate {s = sum b, c = max ¤, d = min ¤})",
        "from t | join u (==a) | select {t.a, u.d, x = ¤, y = ¤}",
        "from t | select {a, x = ¤} | append (from u | select {a, x = ¤})",
        "from t | derive {x = ¤, y = ¤} | filter x == y | select {a, y}",
        "from t | select {a, x = case [a > ¤ => ¤, true => 0]}",
    ];
    const CONSTS: &[&str] = &["5", "2.5", "'k'", "true", "null", "1 + 2"];
    let pool = crate::inst::pool();
    let db = crate::sqlite::Db::new();
    let mut cases: Vec<(String, String, &str)> = vec![];
    for t in TEMPLATES {
        for k in CONSTS {
            let inline = t.replace('¤', &format!("({k})"));
            cases.push((format!("let kc = {k}\n{}", t.replace('¤', "kc")), inline.clone(), "let-constant"));
            cases.push((format!("let idf = p -> p\n{}", t.replace('¤', &format!("(idf ({k}))"))), inline.clone(), "function-parameter"));
            cases.push((format!("module mk {{ let kc = {k} }}\n{}", t.replace('¤', "mk.kc")), inline, "module-constant"));
        }
    }
    // a function whose parameter occurs twice in its body
    for (body, inl) in [("{p = e, q = e}", "{p = a + 1, q = a + 1}"), ("{p = e + 1, q = e * 2, r = e}", "{p = (a + 1) + 1, q = (a + 1) * 2, r = a + 1}")] {
        cases.push((format!("let twice = e -> {body}\nfrom t | select (twice (a + 1))"), format!("from t | select {inl}"), "parameter-used-twice"));
    }
    // relation literals: fields of later rows in another order
    if tier == Tier::Thorough || true {
        cases.push(("from [{a = 1, b = 2}, {b = 3, a = 4}]".into(), "from [{a = 1, b = 2}, {a = 4, b = 3}]".into(), "relation-literal-field-order"));
        cases.push(("from [{a = 1, b = 'x'}, {b = 'y', a = 2}] | filter a > 1".into(), "from [{a = 1, b = 'x'}, {a = 2, b = 'y'}] | filter a > 1".into(), "relation-literal-field-order"));
    }
    let mut reported = std::collections::BTreeSet::new();
    for (named, inline, how) in &cases {
        for d in EXEC_DIALECTS.iter() {
            run.count("named_values:cases", 1);
            let compile = |s: &str| match crate::iso::guard(|| prqlc::compile(s, &opts(*d))) {
                Ok(Ok(sql)) => Ok(sql),
                Ok(Err(e)) => Err(crate::relcheck::err_text(&e)),
                Err(p) => Err(format!("panic at {}", p.site)),
            };
            // the in-place form is the yardstick: where it does not compile there is nothing to compare with
            let Ok(isql) = compile(inline) else {
                run.count("named_values:in_place_form_not_compiled", 1);
                continue;
            };
            let nsql = match compile(named) {
                Ok(s) => s,
                Err(e) => {
                    if reported.insert((how.to_string(), "rejected".to_string())) {
                        run.violate(Some(format!("named-value-form-rejected:{how}")), format!("[{}] {} is rejected ({e}); with the value in place it compiles: {}", dname(*d), named.replace('\n', " | "), inline), json!({"driver":"named-values","prql": named, "in_place": inline, "dialect": dname(*d)}));
                    }
                    continue;
                }
            };
            for inst in pool.iter().take(8) {
                db.load(inst);
                let (a, b) = (db.query(&nsql), db.query(&isql));
                run.validated += 1;
                let same = match (&a, &b) {
                    (Ok((n1, r1)), Ok((n2, r2))) => {
                        let (mut r1, mut r2) = (r1.clone(), r2.clone());
                        r1.sort_by(|x, y| row_cmp(x, y));
                        r2.sort_by(|x, y| row_cmp(x, y));
                        n1.len() == n2.len() && r1.len() == r2.len() && r1.iter().zip(&r2).all(|(x, y)| row_eq(x, y))
                    }
                    (Err(_), Err(_)) => true,
                    _ => false,
                };
                if !same {
                    if reported.insert((how.to_string(), named.clone())) {
                        run.violate(
                            Some(format!("named-value-differs-from-value-in-place:{how}")),
                            format!("[{}] {} → {} differs from {} → {} on {}", dname(*d), named.replace('\n', " | "), nsql.replace('\n', " "), inline, isql.replace('\n', " "), inst.show()),
                            json!({"driver":"named-values","prql": named, "in_place": inline, "dialect": dname(*d), "sql": nsql, "sql_in_place": isql, "instance": inst.show()}),
                        );
                    }
                    break;
                }
            }
        }
    }
}

pub fn run(tier: Tier) -> i32 {
    relrun::run(spec(tier), tier)
}
