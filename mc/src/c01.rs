//! C01 — compiled SQL returns the relation the pipeline denotes.

use crate::apgen::{GenCfg, Letters, SrcKind};
use crate::model::*;
use crate::relcheck::{Finding, Kind, Outcome};
use crate::relrun::{self, RelSpec};
use crate::report::Tier;

pub fn keyfn(f: &Finding, p: &Program, o: &Outcome) -> Option<String> {
    crate::causes::c01_key(f, p, o)
}

pub fn spec(tier: Tier) -> RelSpec {
    let mk = |depth, sources: Vec<SrcKind>, max_joins| GenCfg { depth, sources, max_joins, letters: Letters::Core };
    // exploration aid (not a registered tier): MC_C01_DEPTH=3 enumerates depth-3 programs over two source kinds
    if let Ok(d) = std::env::var("MC_C01_DEPTH") {
        let d: usize = d.parse().unwrap_or(3);
        return RelSpec { property: "C01", cfgs: vec![mk(d, vec![SrcKind::OpenT, SrcKind::LetClosed], 1)], exh_depth: 0, exh_size: (2, 1), decides: vec![Kind::Rows, Kind::Arity, Kind::EngineReject], keyfn, extra: None };
    }
    let cfgs = match tier {
        Tier::Quick => vec![
            mk(2, vec![SrcKind::OpenT, SrcKind::LetClosed, SrcKind::Literal, SrcKind::SubClosed, SrcKind::LetSorted], 1),
            // the rules that cut a pipeline into sub-queries, one step deeper over a small alphabet
            GenCfg { depth: 3, sources: vec![SrcKind::OpenT, SrcKind::LetClosed], max_joins: 1, letters: Letters::Split },
        ],
        // depth 2 over all source kinds on the whole exhaustive instance space, plus depth 3 over two source
        // kinds (its defect causes were triaged on the second day, see DESIGN §9) and the Split alphabet at depth 4
        Tier::Thorough => vec![
            mk(2, vec![SrcKind::OpenT, SrcKind::LetClosed, SrcKind::Literal, SrcKind::SubClosed, SrcKind::LetSorted], 2),
            GenCfg { depth: 4, sources: vec![SrcKind::OpenT, SrcKind::LetClosed, SrcKind::LetSorted], max_joins: 1, letters: Letters::Split },
            // every depth-3 program of the core alphabet over the two basic source kinds (0.36 M programs, on the
            // instance pool only — `exh_depth` keeps the exhaustive instance space for programs of up to 2 steps)
            mk(3, vec![SrcKind::OpenT, SrcKind::LetClosed], 1),
        ],
    };
    RelSpec {
        property: "C01",
        cfgs,
        exh_depth: tier.pick(1, 2),
        // (thorough: all programs of the space on all 550 instances)
        exh_size: (2, 1),
        decides: vec![Kind::Rows, Kind::Arity, Kind::EngineReject],
        keyfn,
        extra: None,
    }
}

pub fn run(tier: Tier) -> i32 {
    relrun::run(spec(tier), tier)
}
