//! C13 — errors are located inside the source and point at the offending text.
//! EDIT × STR driver: error templates with a known offending region × padding before the site
//! (ASCII / 2- / 3- / 4-byte characters, in comments, string literals, backticked identifiers)
//! × placement (single file, root or module of a 2- / 3-file project).

use crate::engine;
use crate::iso::guard;
use crate::report::{fnv, par_map, Run, Tier};
use prqlc::{ErrorMessages, SourceTree};
use serde_json::json;
use std::path::PathBuf;

/// (name, stage, text with the offending region between ⟦ and ⟧)
pub const TEMPLATES: &[(&str, &str, &str)] = &[
    ("lex-stray-char", "lexer", "from t | select {a ⟦^⟧ b}"),
    ("lex-stray-2-byte-char", "lexer", "from t | select {a ⟦§⟧ b}"),
    ("lex-stray-3-byte-char", "lexer", "from t | select {a ⟦€⟧ b}"),
    ("lex-stray-4-byte-char", "lexer", "from t | select {a ⟦🐢⟧ b}"),
    ("lex-unterminated-string", "lexer", "from t | select {x = ⟦'abc}⟧"),
    ("syn-stray-paren", "parser", "from t | select {a, b} ⟦)⟧"),
    ("syn-missing-brace", "parser", "from t | select ⟦{a, b⟧"),
    // premature end of input: the region runs from the construct left open to the end of the text
    ("syn-missing-paren", "parser", "from t | filter ⟦(a > 1⟧"),
    ("syn-dangling-arrow", "parser", "let f = ⟦func a ->⟧"),
    ("syn-dangling-operator", "parser", "from t | derive x = ⟦a +⟧"),
    ("syn-double-equals-let", "parser", "let x = ⟦=⟧ 5"),
    ("syn-bad-arrow", "parser", "let f = x ⟦=>⟧ x + 1"),
    ("res-unknown-name", "resolver", "from t | select {a, b} | filter ⟦zz⟧ > 1"),
    ("res-unknown-name-in-derive", "resolver", "from t | select {a, b} | derive {c = a + ⟦zz⟧}"),
    ("res-unknown-function", "resolver", "from t | derive x = ⟦nosuchfn a⟧"),
    // an unknown name inside an interpolated string, with ASCII / multi-byte text in the string before it
    ("res-unknown-name-in-sstring", "resolver", "from t | select {a, b} | derive x = s\"abs + {⟦zz⟧}\""),
    ("res-unknown-name-in-sstring-after-2-byte-text", "resolver", "from t | select {a, b} | derive x = s\"é + {⟦zz⟧}\""),
    ("res-unknown-name-in-fstring-after-multibyte-text", "resolver", "from t | select {a, b} | derive x = f\"éé 中{⟦zz⟧} 🐢\""),
    ("res-unknown-name-in-fstring-second-hole", "resolver", "from t | select {a, b} | derive x = f\"« {a} » n° {⟦zz⟧}\""),
    // the same behind the other spellings of an interpolated string: triple quotes, an escape sequence
    // before the hole (the text of the literal is longer than its value), single quotes
    ("res-unknown-name-in-triple-quoted-sstring", "resolver", "from t | select {a, b} | derive x = s\"\"\"abs + {⟦zz⟧}\"\"\""),
    ("res-unknown-name-in-triple-quoted-fstring-after-2-byte-text", "resolver", "from t | select {a, b} | derive x = f\"\"\"é{⟦zz⟧}\"\"\""),
    ("res-unknown-name-in-sstring-after-escape", "resolver", "from t | select {a, b} | derive x = s\"\\t\\t + {⟦zz⟧}\""),
    ("res-unknown-name-in-fstring-after-escape-and-2-byte-text", "resolver", "from t | select {a, b} | derive x = f\"\\n€{⟦zz⟧}\""),
    ("res-unknown-name-in-single-quoted-sstring", "resolver", "from t | select {a, b} | derive x = s'abs + {⟦zz⟧}'"),
    ("syn-bad-hole-in-triple-quoted-sstring", "parser", "from t | select {a = s\"\"\"abc {b⟦ ⟧c}\"\"\"}"),
    ("syn-bad-hole-in-sstring-after-escape", "parser", "from t | select {a = s\"\\t\\t{b⟦ ⟧c}\"}"),
    ("res-ambiguous", "resolver", "from t | select {a, b} | join r=(from u | select {a, d}) (==a) | filter ⟦a⟧ > 1"),
    ("res-too-many-args", "resolver", "from t | ⟦take 1 2⟧"),
    ("res-unknown-named-arg", "resolver", "from t | ⟦sort nope:1 {a}⟧"),
    ("res-unknown-table-column", "resolver", "from t | select {a, b} | select {⟦t.zz⟧}"),
    ("type-take-string", "resolver", "from t | take ⟦'x'⟧"),
    ("type-bad-join-side", "resolver", "from t | join side:⟦sideways⟧ u (==a)"),
    // data errors of from_text: the offending text is somewhere in the call (its format argument, or the
    // faulty line of the text) — with escapes / multi-byte characters in the literal, the text in a block,
    // and the text delivered by a function / a constant (the call is shorter than the text it stands for;
    // the literal that holds the data is a legitimate place to point at, so the region starts at the declaration)
    ("res-from-text-bad-csv-escapes-and-2-byte-char", "resolver", "⟦from_text format:csv \"a,b\\n1,2,é\"⟧"),
    ("res-from-text-bad-csv-many-escapes", "resolver", "⟦from_text format:csv \"a,b\\n\\t1,\\t2\\n\\u{e9},2,🐢\"⟧"),
    ("res-from-text-bad-csv-block", "resolver", "⟦from_text format:csv \"\"\"\na,b\n1,2\n3,4,é\n\"\"\"⟧"),
    ("res-from-text-bad-csv-default-format", "resolver", "⟦from_text \"\"\"\na,b\n3,4,é\n\"\"\"⟧"),
    ("res-from-text-bad-json", "resolver", "⟦from_text format:json '[{\"a\": 1}, é]'⟧"),
    ("res-from-text-bad-csv-through-function", "resolver", "⟦let mk = x -> \"a,b\\n1,2\\n1,2\\n1,2\\n1,2\\n1,2\\n1,2\\n1,2,3\"\nfrom_text format:csv (mk 1)⟧"),
    ("res-from-text-bad-csv-through-let", "resolver", "⟦let txt = \"a,b\\n1,2,é\"\nfrom_text format:csv txt⟧"),
    ("sql-unsupported-fn", "sql", "prql target:sql.sqlite\nfrom t | select {x = (⟦a | date.to_text \"%Y\"⟧)}"),
    ("sql-take-negative", "sql", "from t | take ⟦(-1)..⟧"),
];

pub const PADDINGS: &[(&str, &str, bool)] = &[
    // (name, text, same_line)
    ("none", "", false),
    ("ascii-comment-line", "# plain comment\n", false),
    ("2-byte-comment-line", "# é ñ ü\n", false),
    ("3-byte-comment-line", "# 中文 注释\n", false),
    ("4-byte-comment-line", "# 🐢🐢 turtle\n", false),
    ("crlf-comment-line", "# dos line ending\r\n", false),
    ("two-crlf-lines", "# one\r\n# deux é\r\n", false),
    ("crlf-blank-lines", "\r\n\r\n\r\n", false),
    ("string-literal-same-line", "derive {s0 = 'é中🐢'} | ", true),
    ("backtick-ident-same-line", "derive {`çé 🐢` = 1} | ", true),
    // a byte-order mark as the very first character of the file holding the error (before a header too): the
    // compiler may reject the mark itself (then that is the offending text) or accept it and report the error
    // of the template where it is
    ("bom-at-file-start", "\u{feff}", false),
    ("bom-then-2-byte-comment-line", "\u{feff}# é\n", false),
];

/// text after the erroneous program, in the file that holds it (an error found at the end of the input
/// has the whole trailer between the last token and the end of the file)
pub const TRAILERS: &[(&str, &str)] = &[
    ("none", ""),
    ("comment-without-newline", "  # tail"),
    ("newline", "\n"),
    ("multibyte-comment-and-newline", " # fin é\n"),
    ("blank-lines-then-comment", "\n\n# tail"),
];

#[derive(Clone, Debug)]
pub struct CaseSpec {
    pub template: usize,
    pub padding: usize,
    /// 0 single file; 1 = 2-file project, error in root; 2 = 2-file project, error in module;
    /// 3 = 3-file project, error in the second module
    pub placement: usize,
    /// index into TRAILERS
    pub trailer: usize,
}

pub struct Built {
    /// (path, content)
    pub files: Vec<(String, String)>,
    /// file holding the error and the offending region in *character* offsets
    pub err_file: String,
    pub region: (usize, usize),
    /// other regions an error may legitimately point at (the byte-order mark of a file that starts with one)
    pub alt_regions: Vec<(usize, usize)>,
}

fn strip_marks(t: &str) -> (String, (usize, usize)) {
    // char offsets of the region
    let mut out = String::new();
    let mut a = 0;
    let mut b = 0;
    for c in t.chars() {
        match c {
            '⟦' => a = out.chars().count(),
            '⟧' => b = out.chars().count(),
            _ => out.push(c),
        }
    }
    (out, (a, b))
}

pub fn build(c: &CaseSpec) -> Built {
    let (_, _, tpl) = TEMPLATES[c.template];
    let (pname, ptext, same_line) = PADDINGS[c.padding];
    let _ = pname;
    let bom = ptext.starts_with('\u{feff}');
    let ptext = ptext.trim_start_matches('\u{feff}');
    let (body, (a, b)) = strip_marks(tpl);
    // a `prql` header must stay first: padding goes after it
    let (header, rest, hdr_chars) = match body.strip_prefix("prql ") {
        Some(_) => {
            let nl = body.find('\n').unwrap() + 1;
            (body[..nl].to_string(), body[nl..].to_string(), body[..nl].chars().count())
        }
        None => (String::new(), body.clone(), 0),
    };
    // same-line paddings are an extra transform right after `from t | `, so that the multi-byte text
    // shares the line with the error site; templates without that prefix get it on the line before
    let (content, region) = if same_line && rest.starts_with("from t | ") {
        let k = "from t | ".chars().count();
        let shift = ptext.chars().count();
        let content = format!("{header}from t | {ptext}{}", &rest["from t | ".len()..]);
        let _ = k;
        (content, (a + shift, b + shift))
    } else {
        let pad = if same_line { format!("let s0 = '{}'\n", "é中🐢") } else { ptext.to_string() };
        let shift = pad.chars().count();
        (format!("{header}{pad}{rest}"), (a + shift, b + shift))
    };
    let _ = hdr_chars;
    let trailer = TRAILERS[c.trailer].1;
    let stage = TEMPLATES[c.template].1;
    let wraps = (stage == "resolver" || stage == "sql") && wrap_as_module(&content) != content;
    let modtext = format!("{}{trailer}", if wraps { wrap_as_module(&content) } else { content.clone() });
    let content = format!("{content}{trailer}");
    let modregion = if wraps { shift_region(&content, region) } else { region };
    let (content, modtext, region, modregion, alt_regions) = if bom {
        (format!("\u{feff}{content}"), format!("\u{feff}{modtext}"), (region.0 + 1, region.1 + 1), (modregion.0 + 1, modregion.1 + 1), vec![(0, 1)])
    } else {
        (content, modtext, region, modregion, vec![])
    };
    let main_for_module = if wraps { "from helpers.bad\n".to_string() } else { "from t | select {a}\n".to_string() };
    match c.placement {
        0 => Built { files: vec![("".into(), content)], err_file: "".into(), region, alt_regions },
        1 => Built {
            files: vec![("Main.prql".into(), content), ("helpers.prql".into(), "let double = x -> x * 2\n".into())],
            err_file: "Main.prql".into(),
            region,
            alt_regions,
        },
        2 => Built {
            files: vec![("Main.prql".into(), main_for_module), ("helpers.prql".into(), modtext)],
            err_file: "helpers.prql".into(),
            region: modregion,
            alt_regions: alt_regions.clone(),
        },
        _ => Built {
            files: vec![
                ("Main.prql".into(), main_for_module),
                ("alpha.prql".into(), "let one = 1\n".into()),
                ("helpers.prql".into(), modtext),
            ],
            err_file: "helpers.prql".into(),
            region: modregion,
            alt_regions: alt_regions.clone(),
        },
    }
}

/// a module file cannot hold a bare main pipeline next to others: bind it to a name
fn wrap_as_module(content: &str) -> String {
    // keep lets/headers as they are, name a trailing pipeline
    if let Some(i) = content.rfind("from t") {
        if !content[..i].trim_end().ends_with('(') {
            return format!("{}let bad = ({})\n", &content[..i], &content[i..].trim_end());
        }
    }
    content.to_string()
}

fn shift_region(content: &str, region: (usize, usize)) -> (usize, usize) {
    if let Some(i) = content.rfind("from t") {
        if !content[..i].trim_end().ends_with('(') {
            let ci = content[..i].chars().count();
            if region.0 >= ci {
                let k = "let bad = (".chars().count();
                return (region.0 + k, region.1 + k);
            }
        }
    }
    region
}

fn compile_files(b: &Built) -> Result<Result<String, ErrorMessages>, crate::iso::PanicInfo> {
    guard(|| {
        if b.files.len() == 1 {
            let o = prqlc::Options::default().no_format().no_signature().with_display(prqlc::DisplayOptions::Plain);
            prqlc::compile(&b.files[0].1, &o)
        } else {
            let tree = SourceTree::new(b.files.iter().map(|(p, c)| (PathBuf::from(p), c.clone())), None);
            let pl = prqlc::prql_to_pl_tree(&tree)?;
            let rq = prqlc::pl_to_rq_tree(pl, &[], &[]).map_err(|e| e.composed(&tree))?;
            let o = prqlc::Options::default().no_format().no_signature();
            prqlc::rq_to_sql(rq, &o).map_err(|e| e.composed(&tree))
        }
    })
}

/// unit of span offsets. The property asks for spans "on character boundaries", which only byte offsets can
/// miss; a compiler that counts characters throughout would satisfy every clause as well. A result is
/// accepted if one convention explains all of its errors.
#[derive(Clone, Copy, PartialEq, Debug)]
enum Conv {
    Bytes,
    Chars,
}

/// offset (in the convention's unit) → byte offset, None if outside the text or inside a character
fn to_byte(src: &str, off: usize, conv: Conv) -> Result<usize, &'static str> {
    match conv {
        Conv::Bytes => {
            if off > src.len() {
                Err("span-outside-source")
            } else if !src.is_char_boundary(off) {
                Err("span-splits-a-character")
            } else {
                Ok(off)
            }
        }
        Conv::Chars => {
            let n = src.chars().count();
            if off > n {
                Err("span-outside-source")
            } else {
                Ok(src.char_indices().nth(off).map(|(i, _)| i).unwrap_or(src.len()))
            }
        }
    }
}

/// (line, column in characters, column in bytes) of a byte offset
fn line_col(src: &str, byte: usize) -> (usize, usize, usize) {
    let before = &src[..byte];
    let line = before.matches('\n').count();
    let ls = before.rfind('\n').map(|i| i + 1).unwrap_or(0);
    (line, src[ls..byte].chars().count(), byte - ls)
}

/// the other name of the end-of-text position behind a final line break: (last line, its length + 1)
fn eof_alt(src: &str, byte: usize) -> Option<(usize, usize, usize)> {
    if byte == src.len() && src.ends_with('\n') {
        let p = line_col(src, byte - 1);
        Some((p.0, p.1 + 1, p.2 + 1))
    } else {
        None
    }
}

fn check_spans(b: &Built, errs: &prqlc::ErrorMessages, stage: &str, conv: Conv) -> Vec<(String, String)> {
    let mut bad = vec![];
    let src = &b.files.iter().find(|(p, _)| *p == b.err_file).unwrap().1;
    // offending region: character offsets → bytes
    let rb = |c: usize| src.char_indices().nth(c).map(|(i, _)| i).unwrap_or(src.len());
    let (ra, rz) = (rb(b.region.0), rb(b.region.1));
    let mut any_overlap = false;
    let mut any_span = false;
    for e in &errs.inner {
        let Some(sp) = e.span else { continue };
        // the file the span names: ids are 1-based positions in the list given to SourceTree::new
        let named = if b.files.len() == 1 { if sp.source_id == 1 { Some(&b.files[0].0) } else { None } } else { b.files.get((sp.source_id as usize).wrapping_sub(1)).map(|f| &f.0) };
        match named {
            None => {
                // recorded cause: an `internal compiler error` located in the bundled std library (source id 0)
                let key = if sp.source_id == 0 && e.reason.contains("internal compiler error") { "span-names-no-file-of-the-project:internal-error-located-in-std" } else { "span-names-no-file-of-the-project" };
                bad.push((key.into(), format!("span {sp:?}: source id {} is not a file of this project ({})", sp.source_id, e.reason)));
                continue;
            }
            Some(f) if *f != b.err_file => {
                bad.push(("span-in-wrong-file".into(), format!("span {sp:?} names {f:?}, the error is in {:?}", b.err_file)));
                continue;
            }
            _ => {}
        }
        any_span = true;
        if sp.start > sp.end {
            bad.push(("span-start-after-end".into(), format!("span {sp:?}")));
            continue;
        }
        let (bs, be) = match (to_byte(src, sp.start, conv), to_byte(src, sp.end, conv)) {
            (Ok(a), Ok(z)) => (a, z),
            (Err(k), _) | (_, Err(k)) => {
                bad.push((k.into(), format!("span {sp:?} read as {conv:?}: the file has {} bytes / {} characters", src.len(), src.chars().count())));
                continue;
            }
        };
        // location must be the position of that span (columns counted in characters, or in the span's own unit)
        let (s, en) = (line_col(src, bs), line_col(src, be));
        match &e.location {
            Some(loc) => {
                // the offset just behind a final line break is the start of a line that has no text: naming it
                // as one past the end of the last line is the same position
                let (s2, en2) = (eof_alt(src, bs).unwrap_or(s), eof_alt(src, be).unwrap_or(en));
                let same = |l: (usize, usize), p: (usize, usize, usize), q: (usize, usize, usize), bytes: bool| if bytes { l == (p.0, p.2) || l == (q.0, q.2) } else { l == (p.0, p.1) || l == (q.0, q.1) };
                let chars_ok = same(loc.start, s, s2, false) && same(loc.end, en, en2, false);
                let bytes_ok = conv == Conv::Bytes && same(loc.start, s, s2, true) && same(loc.end, en, en2, true);
                if !chars_ok && !bytes_ok {
                    bad.push(("location-is-not-position-of-span".into(), format!("location {:?}-{:?}, span {sp:?} ({conv:?}) is at {:?}-{:?}", loc.start, loc.end, (s.0, s.1), (en.0, en.1))));
                }
            }
            None => bad.push(("span-without-location".into(), format!("span {sp:?} but no location"))),
        }
        // the rendered message quotes the line containing the span
        if let Some(d) = &e.display {
            let text = src.split('\n').nth(s.0).unwrap_or("").trim_end_matches('\r');
            if !text.trim().is_empty() && !d.contains(text.trim_end()) {
                bad.push(("display-does-not-quote-the-line".into(), format!("line {} {:?} not in display", s.0, text)));
            }
        } else {
            bad.push(("span-without-display".into(), format!("span {sp:?} but no rendered message")));
        }
        // touching includes the two ends of the region: an error found at the end of the input may be
        // reported as an empty span there
        if bs <= rz && be >= ra {
            any_overlap = true;
        }
        for (x, y) in &b.alt_regions {
            if bs <= rb(*y) && be >= rb(*x) {
                any_overlap = true;
            }
        }
    }
    if any_span && !any_overlap {
        let spans: Vec<String> = errs.inner.iter().filter_map(|e| e.span.map(|s| format!("{s:?}"))).collect();
        let show = |sp: &prqlc::Span| match (to_byte(src, sp.start, conv), to_byte(src, sp.end, conv)) {
            (Ok(a), Ok(z)) if a <= z => src[a..z].to_string(),
            _ => "?".into(),
        };
        bad.push((
            format!("span-misses-offending-text:{stage}"),
            format!("spans {spans:?} read as {conv:?} (text {:?}) do not touch the offending text {:?} at chars {}..{}", errs.inner.iter().filter_map(|e| e.span.as_ref().map(show)).collect::<Vec<_>>(), &src[ra..rz], b.region.0, b.region.1),
        ));
    }
    bad
}

/// the unit of span offsets is a property of the compiler, not of one error: it is calibrated once per run on
/// the results in which the two readings differ (see `run`), and every result is then judged under it
pub fn check(b: &Built, stage: &str) -> Vec<(String, String)> {
    let (common, bytes, chars) = check3(b, stage);
    let mut bad = common;
    match convention() {
        Conv::Bytes => bad.extend(bytes),
        Conv::Chars => bad.extend(chars),
    }
    bad
}

static CONVENTION: std::sync::OnceLock<Conv> = std::sync::OnceLock::new();

fn convention() -> Conv {
    *CONVENTION.get_or_init(|| {
        // calibration set: resolver / parser errors behind multi-byte text, where bytes and characters differ
        let (mut nb, mut nc) = (0u32, 0u32);
        for (ti, t) in TEMPLATES.iter().enumerate() {
            if t.1 == "lexer" {
                continue;
            }
            for pi in [2usize, 3, 4] {
                let b = build(&CaseSpec { template: ti, padding: pi, placement: 0, trailer: 0 });
                let (_, bytes, chars) = check3(&b, t.1);
                if bytes.is_empty() != chars.is_empty() {
                    if bytes.is_empty() {
                        nb += 1
                    } else {
                        nc += 1
                    }
                }
            }
        }
        // (no evidence either way: byte offsets, which is what "on character boundaries" presupposes)
        if nc > nb {
            Conv::Chars
        } else {
            Conv::Bytes
        }
    })
}

/// (findings independent of the unit, findings reading spans as bytes, findings reading them as characters)
pub fn check3(b: &Built, stage: &str) -> (Vec<(String, String)>, Vec<(String, String)>, Vec<(String, String)>) {
    let mut bad = vec![];
    let r = match compile_files(b) {
        Err(p) => {
            bad.push((crate::c12::panic_key(&p), format!("panic at {}: {}", p.site, p.msg)));
            return (bad, vec![], vec![]);
        }
        Ok(r) => r,
    };
    let errs = match r {
        Ok(sql) => {
            bad.push(("erroneous-source-accepted".into(), format!("compiled to {sql}")));
            return (bad, vec![], vec![]);
        }
        Err(e) => e,
    };
    if errs.inner.is_empty() {
        bad.push(("no-error-message".into(), "Err with an empty list".into()));
    }
    for e in &errs.inner {
        if e.reason.trim().is_empty() {
            bad.push(("empty-reason".into(), "error with empty reason".into()));
        }
    }
    let as_bytes = check_spans(b, &errs, stage, Conv::Bytes);
    let as_chars = check_spans(b, &errs, stage, Conv::Chars);
    (bad, as_bytes, as_chars)
}

pub fn run(tier: Tier) -> i32 {
    let mut run = Run::new("C13", tier);
    let (cases, st) = engine::collect(0, |c| {
        let template = c.choose(TEMPLATES.len(), "template");
        let padding = c.choose(PADDINGS.len(), "padding");
        let placement = c.choose(4, "placement");
        // a `prql` header is only valid in a root file
        if placement >= 2 && TEMPLATES[template].2.starts_with("prql ") {
            return None;
        }
        let trailer = c.choose(TRAILERS.len(), "trailer");
        Some(CaseSpec { template, padding, placement, trailer })
    });
    let specs: Vec<CaseSpec> = cases.iter().map(|(c, _)| c.clone()).collect();
    let outs = par_map(&specs, || (), |_, c| {
        let b = build(c);
        (check(&b, TEMPLATES[c.template].1), b)
    });
    let mut no_span = 0u64;
    for ((spec, ch), (bad, b)) in cases.iter().zip(outs) {
        run.validated += 1;
        let (tn, stage, _) = TEMPLATES[spec.template];
        run.count(&format!("stage:{stage}"), 1);
        run.observe(fnv(&format!("{tn}{}{}", spec.padding.min(2), bad.len())));
        if bad.is_empty() {
            no_span += 0;
            if run.samples.len() < 5 && spec.padding == 4 {
                run.sample(json!({"template": tn, "padding": PADDINGS[spec.padding].0, "placement": spec.placement, "files": b.files, "verdict": "span, location and display agree and touch the offending text"}));
            }
        }
        for (k, m) in bad {
            // cause: byte offsets used as character offsets — only arises with multi-byte text before the site
            let multibyte_before = PADDINGS[spec.padding].1.chars().any(|c| c.len_utf8() > 1);
            // cause: positions inside an interpolated string are computed as (start of the literal + 2 + offset in the
            // *value*): right only for one-character delimiters and text without escape sequences
            let spelled = tn.contains("triple-quoted") || tn.contains("after-escape");
            let key = if spelled && (k.starts_with("span-misses-offending-text") || k == "span-splits-a-character" || k == "span-outside-source" || k == "location-is-not-position-of-span" || k == "display-does-not-quote-the-line") {
                "interpolation-span-ignores-delimiter-length-and-escapes".to_string()
            } else if multibyte_before && (k.starts_with("span-misses-offending-text") || k == "span-outside-source" || k == "location-is-not-position-of-span" || k == "display-does-not-quote-the-line" || k.starts_with("panic@prqlc/prqlc/src/error_message.rs")) && stage != "lexer" {
                "byte-offset-span-used-as-character-offset".to_string()
            } else {
                k
            };
            run.violate(
                Some(key),
                format!("{tn} / {} / placement {} / trailer {}: {m}", PADDINGS[spec.padding].0, spec.placement, TRAILERS[spec.trailer].0),
                json!({"driver":"EDIT×STR","choices": ch, "template": tn, "padding": PADDINGS[spec.padding].0, "placement": spec.placement, "trailer": TRAILERS[spec.trailer].0, "files": b.files, "err_file": b.err_file, "region_chars": [b.region.0, b.region.1], "detail": m}),
            );
        }
    }
    let _ = no_span;
    // ---- part B: error-producing single-token edits of real programs, site known
    let mut seeds = crate::seeds::integration_queries();
    for (i, h) in crate::seeds::HAND.iter().enumerate() {
        seeds.push((format!("hand#{i}"), h.to_string()));
    }
    if tier == Tier::Thorough {
        seeds.extend(crate::seeds::book_examples());
    }
    // the same programs with DOS line endings
    let dos: Vec<(String, String)> = seeds.iter().filter(|(_, s)| s.contains('\n') && !s.contains('\r')).map(|(n, s)| (format!("{n}+crlf"), s.replace('\n', "\r\n"))).collect();
    seeds.extend(dos);
    const TRANSFORMS: &[&str] = &["select", "derive", "filter", "sort", "take", "join", "group", "aggregate", "window", "append"];
    let mut edits: Vec<(String, Built, &'static str)> = vec![];
    for (name, src) in &seeds {
        // only seeds that compile (for the generic dialect) are edited
        if !matches!(guard(|| prqlc::compile(src, &prqlc::Options::default().no_signature())), Ok(Ok(_))) {
            continue;
        }
        let toks = match prqlc_parser::lexer::lex_source(src) {
            Ok(t) => t.0,
            Err(_) => continue,
        };
        for t in toks.iter().skip(1) {
            let (a, b) = (t.span.start, t.span.end);
            if !(src.is_char_boundary(a) && src.is_char_boundary(b)) || a >= b {
                continue;
            }
            let ca = src[..a].chars().count();
            let text = &src[a..b];
            // (1) a stray character in place of the token: lexer error exactly there
            if matches!(t.kind, prqlc_parser::lexer::lr::TokenKind::Ident(_) | prqlc_parser::lexer::lr::TokenKind::Literal(_)) && !text.contains(|c: char| c == '\n') {
                let edited = format!("{}^{}", &src[..a], &src[b..]);
                edits.push((format!("{name}@{ca}:stray-char"), Built { files: vec![("".into(), edited)], err_file: "".into(), region: (ca, ca + 1), alt_regions: vec![] }, "lexer"));
            }
            // (2) an unknown function in place of a transform name: resolver error at that token
            if TRANSFORMS.contains(&text) {
                let repl = "zz_no_such_fn";
                let edited = format!("{}{repl}{}", &src[..a], &src[b..]);
                // the call as a whole may be blamed: allow the span to start at the token and extend to the line end
                edits.push((format!("{name}@{ca}:unknown-function"), Built { files: vec![("".into(), edited)], err_file: "".into(), region: (ca, ca + repl.len()), alt_regions: vec![] }, "resolver"));
            }
        }
    }
    // the same edits in a file that starts with a byte-order mark: the mark may be rejected (then it is the
    // offending text) or accepted — the error is where it is either way
    let bom_twins: Vec<(String, Built, &'static str)> = edits
        .iter()
        .filter(|(n, _, _)| !n.contains("+crlf"))
        .map(|(n, b, st)| {
            (format!("{n}+bom"), Built { files: vec![("".into(), format!("\u{feff}{}", b.files[0].1))], err_file: "".into(), region: (b.region.0 + 1, b.region.1 + 1), alt_regions: vec![(0, 1)] }, *st)
        })
        .collect();
    edits.extend(bom_twins);
    let outs = par_map(&edits, || (), |_, (_, b, stage)| check(b, stage));
    for ((name, b, stage), bad) in edits.iter().zip(outs) {
        run.validated += 1;
        run.count(&format!("seed_edits:{stage}"), 1);
        let multibyte_before = b.files[0].1.chars().take(b.region.0).any(|c| c.len_utf8() > 1);
        for (k, m) in bad {
            // an edit may turn the program into a different valid one (e.g. `^` inside an s-string): not an error case
            if k == "erroneous-source-accepted" {
                run.count("seed_edits:still_compiles", 1);
                continue;
            }
            let key = if multibyte_before && *stage != "lexer" && (k.starts_with("span-misses-offending-text") || k == "span-outside-source" || k == "location-is-not-position-of-span" || k == "display-does-not-quote-the-line" || k.starts_with("panic@prqlc/prqlc/src/error_message.rs")) {
                "byte-offset-span-used-as-character-offset".to_string()
            } else {
                k
            };
            run.violate(Some(key), format!("{name}: {m}"), json!({"driver":"EDIT-seed","case": name, "files": b.files, "region_chars": [b.region.0, b.region.1], "detail": m}));
        }
    }
    run.states = (cases.len() + edits.len()) as u64;
    run.transitions = st.points;
    run.set("bounds", json!({"templates": TEMPLATES.iter().map(|t| t.0).collect::<Vec<_>>(), "paddings": PADDINGS.iter().map(|p| p.0).collect::<Vec<_>>(), "placements": ["single file", "2 files, error in root", "2 files, error in module", "3 files, error in module"], "trailers": TRAILERS.iter().map(|t| t.0).collect::<Vec<_>>()}));
    run.set("rule", json!("complete product template × padding × placement × trailer; each erroneous project is compiled; every returned error is checked: non-empty reason; span ordered, inside the named file, location = line/column of the span, display quotes that line, and some span touches the known offending text (the unit of offsets — bytes or characters — is calibrated once per run on the errors behind multi-byte text, then every span is read in that unit; under bytes they must lie on character boundaries)"));
    run.assume("the unit of span offsets is a property of the compiler: it is calibrated per run (parser/resolver errors behind 2/3/4-byte text, where the readings differ) and applied to every result; without evidence it is bytes");
    run.set("span_unit", json!(format!("{:?}", convention())));
    run.finish()
}

pub fn replay(v: &serde_json::Value) -> i32 {
    let tn = v["template"].as_str().unwrap_or("");
    let pn = v["padding"].as_str().unwrap_or("");
    let t = TEMPLATES.iter().position(|t| t.0 == tn);
    let p = PADDINGS.iter().position(|p| p.0 == pn);
    let (Some(t), Some(p)) = (t, p) else {
        println!("unknown template/padding");
        return 2;
    };
    let trailer = TRAILERS.iter().position(|x| Some(x.0) == v["trailer"].as_str()).unwrap_or(0);
    let spec = CaseSpec { template: t, padding: p, placement: v["placement"].as_u64().unwrap_or(0) as usize, trailer };
    let b = build(&spec);
    let bad = check(&b, TEMPLATES[t].1);
    for (k, m) in &bad {
        println!("FAIL [{k}] {m}");
    }
    if bad.is_empty() {
        println!("OK");
        0
    } else {
        1
    }
}
