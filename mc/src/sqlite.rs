//! Execution substrate: in-process SQLite (rusqlite, bundled) with the math functions the
//! bundled build lacks, registered with their standard meaning.

use crate::model::{Inst, V};
use rusqlite::functions::FunctionFlags;
use rusqlite::types::{Value as SV, ValueRef};
use rusqlite::Connection;

pub struct Db {
    pub conn: Connection,
}

fn num(v: &ValueRef) -> Option<f64> {
    match v {
        ValueRef::Integer(i) => Some(*i as f64),
        ValueRef::Real(r) => Some(*r),
        _ => None,
    }
}

impl Db {
    pub fn new() -> Db {
        let conn = Connection::open_in_memory().expect("sqlite");
        let det = FunctionFlags::SQLITE_UTF8 | FunctionFlags::SQLITE_DETERMINISTIC;
        let f1 = |name: &str, f: fn(f64) -> f64| {
            conn.create_scalar_function(name, 1, det, move |ctx| {
                let v = ctx.get_raw(0);
                Ok(match num(&v) {
                    None => SV::Null,
                    Some(x) => {
                        let r = f(x);
                        if r.is_nan() {
                            SV::Null
                        } else {
                            SV::Real(r)
                        }
                    }
                })
            })
            .expect("register")
        };
        f1("FLOOR", f64::floor);
        f1("CEIL", f64::ceil);
        f1("TRUNC", f64::trunc);
        f1("LN", f64::ln);
        f1("LOG10", f64::log10);
        f1("SQRT", f64::sqrt);
        f1("EXP", f64::exp);
        f1("DEGREES", f64::to_degrees);
        f1("RADIANS", f64::to_radians);
        f1("COS", f64::cos);
        f1("SIN", f64::sin);
        f1("TAN", f64::tan);
        f1("ACOS", f64::acos);
        f1("ASIN", f64::asin);
        f1("ATAN", f64::atan);
        for name in ["POW", "POWER"] {
            conn.create_scalar_function(name, 2, det, move |ctx| {
                let (a, b) = (ctx.get_raw(0), ctx.get_raw(1));
                Ok(match (num(&a), num(&b)) {
                    (Some(x), Some(y)) => {
                        let r = x.powf(y);
                        if r.is_nan() {
                            SV::Null
                        } else {
                            SV::Real(r)
                        }
                    }
                    _ => SV::Null,
                })
            })
            .expect("register");
        }
        conn.create_scalar_function("PI", 0, det, move |_| Ok(SV::Real(std::f64::consts::PI))).expect("register");
        conn.create_scalar_function("REGEXP", 2, det, move |ctx| {
            // only literal-substring patterns are used by the harness
            let (p, s) = (ctx.get_raw(0), ctx.get_raw(1));
            Ok(match (p.as_str(), s.as_str()) {
                (Ok(p), Ok(s)) => SV::Integer(s.contains(p) as i64),
                _ => SV::Null,
            })
        })
        .expect("register");
        let db = Db { conn };
        db.conn
            .execute_batch("CREATE TABLE t(a, b); CREATE TABLE u(a, d);")
            .expect("schema");
        db
    }

    pub fn exec_batch(&self, sql: &str) -> Result<(), String> {
        self.conn.execute_batch(sql).map_err(|e| e.to_string())
    }

    pub fn load(&self, inst: &Inst) {
        self.conn.execute_batch("DELETE FROM t; DELETE FROM u;").expect("clear");
        let mut it = self.conn.prepare_cached("INSERT INTO t VALUES (?1, ?2)").unwrap();
        for r in &inst.t {
            it.execute(rusqlite::params![to_sql(&r[0]), to_sql(&r[1])]).unwrap();
        }
        let mut iu = self.conn.prepare_cached("INSERT INTO u VALUES (?1, ?2)").unwrap();
        for r in &inst.u {
            iu.execute(rusqlite::params![to_sql(&r[0]), to_sql(&r[1])]).unwrap();
        }
    }

    /// Prepare only: Ok(column names) or the engine's error message.
    pub fn prepare(&self, sql: &str) -> Result<Vec<String>, String> {
        let st = self.conn.prepare(sql).map_err(|e| e.to_string())?;
        Ok(st.column_names().into_iter().map(|s| s.to_string()).collect())
    }

    pub fn query(&self, sql: &str) -> Result<(Vec<String>, Vec<Vec<V>>), String> {
        let mut st = self.conn.prepare_cached(sql).map_err(|e| e.to_string())?;
        let names: Vec<String> = st.column_names().into_iter().map(|s| s.to_string()).collect();
        let n = names.len();
        let mut rows = st.query([]).map_err(|e| e.to_string())?;
        let mut out = vec![];
        loop {
            match rows.next() {
                Ok(Some(r)) => {
                    let mut v = Vec::with_capacity(n);
                    for i in 0..n {
                        v.push(match r.get_ref(i).map_err(|e| e.to_string())? {
                            ValueRef::Null => V::Null,
                            ValueRef::Integer(i) => V::Int(i),
                            ValueRef::Real(f) => V::Real(f),
                            ValueRef::Text(t) => V::Text(String::from_utf8_lossy(t).into_owned()),
                            ValueRef::Blob(b) => V::Text(format!("<blob {} bytes>", b.len())),
                        });
                    }
                    out.push(v);
                }
                Ok(None) => break,
                Err(e) => return Err(e.to_string()),
            }
        }
        Ok((names, out))
    }
}

pub fn to_sql(v: &V) -> SV {
    match v {
        V::Null => SV::Null,
        V::Int(i) => SV::Integer(*i),
        V::Real(r) => SV::Real(*r),
        V::Text(s) => SV::Text(s.clone()),
    }
}
