//! C06 — refactorings PRQL defines as equivalent do not change results.
//! Base programs × every applicable rewrite site and kind. A rewrite is performed on the
//! abstract program; the model itself confirms that base and rewritten program denote the same
//! relation (harness self-check), then the rewritten program is replayed on the implementation.

use crate::apgen::{GenCfg, Letters, SrcKind};
use crate::inst;
use crate::model::*;
use crate::relcheck::{check_program, Finding, Kind, Outcome};
use crate::relrun::enumerate;
use crate::report::{par_map, Run, Tier};
use crate::sqlite::Db;
use serde_json::json;

#[derive(Clone, Debug)]
pub struct Rewrite {
    pub kind: &'static str,
    pub site: usize,
    pub prog: Program,
    /// the program this one must be equivalent to (None: the base program)
    pub against: Option<Program>,
}

fn printable(p: &Program) -> bool {
    !pr_program(p).contains("<unref")
}

fn name_prefix(base: &Program, j: usize, style: LetStyle) -> Option<Program> {
    let m = base.main.as_ref()?;
    if j == 0 || j > m.steps.len() {
        return None;
    }
    let mut p = base.clone();
    let idx = p.lets.len();
    p.lets.push(("pfx".into(), Pipeline { src: m.src.clone(), steps: m.steps[..j].to_vec() }));
    while p.let_style.len() < idx {
        p.let_style.push(LetStyle::Let);
    }
    p.let_style.push(style);
    p.main = Some(Pipeline { src: Source::Let(idx), steps: m.steps[j..].to_vec() });
    // a named relation must have names for all its columns (the compiler says so explicitly)
    let pf = pipeline_frame(&p.lets[idx].1, &p);
    if pf.cols.iter().any(|c| c.name.is_none()) {
        return None;
    }
    // the rest must still be able to name its columns under the new relation name
    if printable(&p) {
        Some(p)
    } else {
        None
    }
}

/// replace `col op int` at (step, item) by a call of a generated user function
fn extract_fn(base: &Program, step: usize, item: usize, style: CallStyle, named: bool, param: &str) -> Option<Program> {
    let mut p = base.clone();
    let m = p.main.as_mut()?;
    let slot: &mut E = match m.steps.get_mut(step)? {
        Step::Derive(items) | Step::Select(items) => &mut items.get_mut(item)?.e,
        Step::Filter(e) if item == 0 => e,
        _ => return None,
    };
    let E::Bin(op, l, r) = slot.clone() else { return None };
    let (E::Col(c), E::Int(k)) = (*l, *r) else { return None };
    let fidx = p.funcs.len();
    let f = if named {
        UserFn { name: "rwf".into(), params: vec![param.into()], named: vec![("yy".into(), k)], style, body: E::bin(op, E::Col(0), E::Col(1)) }
    } else {
        UserFn { name: "rwf".into(), params: vec![param.into()], named: vec![], style, body: E::bin(op, E::Col(0), E::Int(k)) }
    };
    *slot = E::Call(fidx, vec![E::Col(c)]);
    p.funcs.push(f);
    Some(p)
}

pub fn rewrites(base: &Program, tier: Tier) -> Vec<Rewrite> {
    let mut out = vec![];
    let Some(m) = &base.main else { return out };
    let n = m.steps.len();
    let mut frames = vec![source_frame(&m.src, None, base)];
    for s in &m.steps {
        let f = step_frame(s, frames.last().unwrap(), base);
        frames.push(f);
    }
    // R1 / R2 / R6: name a prefix
    for j in 1..=n {
        for (kind, style) in [("R1-let-prefix", LetStyle::Let), ("R2-into-prefix", LetStyle::Into), ("R6-module-path", LetStyle::Module)] {
            if let Some(p) = name_prefix(base, j, style) {
                out.push(Rewrite { kind, site: j, prog: p, against: None });
            }
        }
    }
    // R3: expression -> user function
    for (si, s) in m.steps.iter().enumerate() {
        let nitems = match s {
            Step::Derive(i) | Step::Select(i) => i.len(),
            Step::Filter(_) => 1,
            _ => 0,
        };
        for it in 0..nitems {
            let variants: Vec<(&'static str, CallStyle, bool, &str)> = vec![
                ("R3-fn-positional", CallStyle::Plain, false, "pp"),
                ("R3-fn-named-default-omitted", CallStyle::Plain, true, "pp"),
                ("R3-fn-named-default-given", CallStyle::NamedExplicit, true, "pp"),
                ("R3-fn-piped", CallStyle::Piped, false, "pp"),
                ("R3-fn-param-named-like-column", CallStyle::Plain, false, "x"),
            ];
            for (kind, style, named, param) in variants {
                if tier == Tier::Quick && kind == "R3-fn-named-default-given" {
                    continue;
                }
                if let Some(p) = extract_fn(base, si, it, style, named, param) {
                    out.push(Rewrite { kind, site: si, prog: p, against: None });
                }
            }
        }
    }
    // R3r: a two-sided range test, upper bound first, written out vs behind a user function that uses its
    // parameter twice (both forms are derived from a base filter `c > k`; the written-out form is the reference)
    for (si, s) in m.steps.iter().enumerate() {
        let Step::Filter(E::Bin(Op::Gt, l, r)) = s else { continue };
        let (E::Col(c), E::Int(k)) = (&**l, &**r) else { continue };
        let range = |x: E| E::bin(Op::And, E::bin(Op::Lte, x.clone(), E::Int(k + 2)), E::bin(Op::Gte, x, E::Int(*k)));
        let mut a = base.clone();
        a.main.as_mut().unwrap().steps[si] = Step::Filter(range(E::Col(*c)));
        for (kind, style) in [("R3r-range-fn-positional", CallStyle::Plain), ("R3r-range-fn-piped", CallStyle::Piped)] {
            let mut b = base.clone();
            let fidx = b.funcs.len();
            b.funcs.push(UserFn { name: "rwf".into(), params: vec!["pp".into()], named: vec![], style, body: range(E::Col(0)) });
            b.main.as_mut().unwrap().steps[si] = Step::Filter(E::Call(fidx, vec![E::Col(*c)]));
            out.push(Rewrite { kind, site: si, prog: b, against: Some(a.clone()) });
        }
    }
    // R3w: a window / aggregation function applied to a column -> a user function whose body is that application
    {
        fn replace_win(e: &mut E, fidx: usize) -> Option<WinFn> {
            match e {
                E::Win(w, Some(c)) => {
                    let (w, c) = (*w, *c);
                    *e = E::Call(fidx, vec![E::Col(c)]);
                    Some(w)
                }
                E::Bin(_, l, r) => replace_win(l, fidx).or_else(|| replace_win(r, fidx)),
                E::IsNull(x) => replace_win(x, fidx),
                _ => None,
            }
        }
        fn in_steps(steps: &mut [Step], fidx: usize) -> Option<WinFn> {
            for s in steps.iter_mut() {
                let r = match s {
                    Step::Derive(items) | Step::Select(items) => items.iter_mut().find_map(|it| replace_win(&mut it.e, fidx)),
                    Step::Filter(e) => replace_win(e, fidx),
                    Step::Group { inner, .. } | Step::Window { inner, .. } => in_steps(inner, fidx),
                    _ => None,
                };
                if r.is_some() {
                    return r;
                }
            }
            None
        }
        for (kind, style) in [("R3w-window-fn-positional", CallStyle::Plain), ("R3w-window-fn-piped", CallStyle::Piped)] {
            let mut p = base.clone();
            let fidx = p.funcs.len();
            if let Some(w) = in_steps(&mut p.main.as_mut().unwrap().steps, fidx) {
                p.funcs.push(UserFn { name: "wf".into(), params: vec!["pp".into()], named: vec![], style, body: E::Win(w, Some(0)) });
                out.push(Rewrite { kind, site: 0, prog: p, against: None });
            }
        }
    }
    // R4: conjunctive filter vs consecutive filters (both forms are derived from the base filter)
    for (si, s) in m.steps.iter().enumerate() {
        if let Step::Filter(e) = s {
            let f = &frames[si];
            let r = f.referencable();
            let Some(&c) = r.last() else { continue };
            let g = E::IsNull(Box::new(E::Col(c)));
            let g = E::bin(Op::Eq, g, E::Int(0)); // (c == null) == false  — kept simple: use c > 0 instead
            let _ = g;
            let g = E::bin(Op::Gt, E::Col(c), E::Int(0));
            let mut a = base.clone();
            a.main.as_mut().unwrap().steps[si] = Step::Filter(E::bin(Op::And, e.clone(), g.clone()));
            out.push(Rewrite { kind: "R4-conjunctive-filter", site: si, prog: a.clone(), against: Some(a.clone()) });
            let mut b = base.clone();
            b.main.as_mut().unwrap().steps.insert(si + 1, Step::Filter(g));
            out.push(Rewrite { kind: "R4-consecutive-filters", site: si, prog: b, against: Some(a) });
        }
    }
    // R5: identities on the frame
    for j in 0..=n {
        let f = &frames[j];
        let all_ref = f.open.is_empty() && (0..f.cols.len()).all(|i| f.refname(i).is_some());
        let ins = |st: Vec<Step>, kind: &'static str, out: &mut Vec<Rewrite>| {
            let mut p = base.clone();
            let steps = &mut p.main.as_mut().unwrap().steps;
            for (k, s) in st.into_iter().enumerate() {
                steps.insert(j + k, s);
            }
            if printable(&p) {
                out.push(Rewrite { kind, site: j, prog: p, against: None });
            }
        };
        ins(vec![Step::Filter(E::bin(Op::Eq, E::Int(1), E::Int(1)))], "R5-filter-true", &mut out);
        if all_ref && !f.cols.is_empty() {
            let sel: Vec<Item> = (0..f.cols.len()).map(|i| Item { alias: None, e: E::Col(i) }).collect();
            ins(vec![Step::Select(sel.clone())], "R5-select-frame", &mut out);
            if let Some(&c) = f.referencable().first() {
                ins(vec![Step::Derive(vec![Item { alias: Some("zz".into()), e: E::bin(Op::Add, E::Col(c), E::Int(1)) }]), Step::Select(sel)], "R5-derive-then-drop", &mut out);
            }
        }
        // repeat the sort that is already in effect
        if j > 0 {
            if let Step::Sort(k) = &m.steps[j - 1] {
                ins(vec![Step::Sort(k.clone())], "R5-repeat-sort", &mut out);
            }
        }
    }
    out
}

fn keyfn(f: &Finding, p: &Program, o: &Outcome) -> Option<String> {
    crate::causes::c01_key(f, p, o).or_else(|| crate::causes::names_key(f, p, o)).or_else(|| crate::causes::c06_key(f, p, o))
}

pub fn run(tier: Tier) -> i32 {
    let mut run = Run::new("C06", tier);
    let cfgs = vec![GenCfg {
        depth: 2,
        sources: tier.pick(vec![SrcKind::OpenT, SrcKind::SubClosed], vec![SrcKind::OpenT, SrcKind::SubClosed, SrcKind::LetClosed, SrcKind::Literal]),
        max_joins: 1,
        letters: tier.pick(Letters::Order, Letters::Core),
    }];
    // quick uses the (smaller) order alphabet without the "must contain a sort" restriction
    let cfgs: Vec<GenCfg> = cfgs.into_iter().map(|mut c| { if tier == Tier::Quick { c.letters = Letters::Naming; } c }).collect();
    let (mut progs, st) = enumerate(&cfgs);
    // order-dependent bases: every depth-3 pipeline of the order alphabet that contains a `take`
    // (a let boundary between a sort and a take that is not in the final SELECT needs 3 steps);
    // these get the prefix-naming rewrites only
    let order_cfg = GenCfg { depth: 3, sources: vec![SrcKind::SubClosed], max_joins: 1, letters: Letters::Order };
    let (order_progs, st_o) = enumerate(&[order_cfg]);
    let n_general = progs.len();
    progs.extend(order_progs.into_iter().filter(|(p, _, _)| p.main.as_ref().map(|m| m.steps.iter().any(|s| matches!(s, Step::Take(..)))).unwrap_or(false)));
    // window bases (the C04 generator): they get the R3w rewrite only
    let n_before_window = progs.len();
    {
        let (wp, _) = crate::engine::collect(0, |c| crate::c04::gen(c, Tier::Quick));
        let mut seen = std::collections::HashSet::new();
        for (p, ch) in wp {
            if seen.insert(pr_program(&p)) {
                progs.push((p, ch, Default::default()));
            }
        }
    }
    let st = crate::engine::Stats { executions: st.executions + st_o.executions, points: st.points + st_o.points, ..st };
    let pool = inst::pool();
    // 1. base programs on which the implementation agrees with the model
    let base_out: Vec<Outcome> = par_map(&progs, Db::new, |db, (p, _, _)| check_program(db, p, &pool));
    let mut cases: Vec<(Rewrite, usize)> = vec![];
    for (i, ((p, _, _), o)) in progs.iter().zip(&base_out).enumerate() {
        run.count("base_programs", 1);
        if !o.findings.is_empty() || o.sqls.is_empty() {
            run.count("base_programs_skipped_(disagree_with_model_or_rejected)", 1);
            continue;
        }
        for r in rewrites(p, tier) {
            if (i >= n_before_window) != r.kind.starts_with("R3w") {
                continue;
            }
            if i >= n_general && i < n_before_window && !(r.kind.starts_with("R1") || (tier == Tier::Thorough && (r.kind.starts_with("R2") || r.kind.starts_with("R6")))) {
                continue;
            }
            cases.push((r, i));
        }
    }
    // 2. harness self-check: the model gives base and rewritten program the same meaning
    let selfcheck: Vec<Option<String>> = par_map(&cases, || (), |_, (r, bi)| {
        for inst in pool.iter() {
            let a = Interp::run(r.against.as_ref().unwrap_or(&progs[*bi].0), inst);
            let b = Interp::run(&r.prog, inst);
            match (a, b) {
                (Ok(a), Ok(b)) => {
                    let mut x: Vec<Vec<V>> = a.rows.iter().map(|r| r.vals.clone()).collect();
                    let mut y: Vec<Vec<V>> = b.rows.iter().map(|r| r.vals.clone()).collect();
                    x.sort_by(|p, q| row_cmp(p, q));
                    y.sort_by(|p, q| row_cmp(p, q));
                    if x.len() != y.len() || !x.iter().zip(&y).all(|(p, q)| row_eq(p, q)) {
                        return Some(format!("model: base and {} differ on {}", r.kind, inst.show()));
                    }
                }
                (Err(_), _) | (_, Err(_)) => {}
            }
        }
        None
    });
    let bad: Vec<&String> = selfcheck.iter().flatten().collect();
    if let Some(b) = bad.first() {
        eprintln!("MACHINERY ERROR: rewrite is not an equivalence in the model ({} cases), e.g. {b}", bad.len());
        return 2;
    }
    // 3. replay every rewritten program on the implementation
    let outs: Vec<Outcome> = par_map(&cases, Db::new, |db, (r, _)| check_program(db, &r.prog, &pool));
    for ((r, bi), o) in cases.iter().zip(&outs) {
        run.validated += o.decided;
        run.count(&format!("rewrites:{}", r.kind), 1);
        run.observe(o.outcome_hash ^ crate::report::fnv(r.kind));
        if o.findings.is_empty() && run.samples.len() < 8 && run.validated % 13 == 0 {
            run.sample(json!({"rewrite": r.kind, "base": pr_program(&progs[*bi].0), "rewritten": o.text, "instances_agreeing": o.decided}));
        }
        for f in &o.findings {
            if f.kind == Kind::Names {
                continue;
            }
            let key = match f.kind {
                Kind::CompileReject | Kind::Panic => crate::causes::c06_key(f, &r.prog, o).or(Some(format!("rewritten-form-not-compiled:{}", r.kind))),
                _ => keyfn(f, &r.prog, o),
            };
            run.violate(
                key,
                format!("[{}@{} {:?}/{}] base: {} => rewritten: {} :: {}", r.kind, r.site, f.kind, f.dialect, pr_program(&progs[*bi].0).trim().replace('\n', " | "), o.text.trim().replace('\n', " | "), f.msg),
                json!({"driver":"AP-rewrite","rewrite": r.kind, "site": r.site, "base_choices": progs[*bi].1, "base": pr_program(&progs[*bi].0), "prql": o.text,
                       "dialect": f.dialect, "kind": format!("{:?}", f.kind), "instance": f.inst.as_ref().map(|i| i.show()), "sql": f.sql, "expected": f.expected, "got": f.got, "msg": f.msg}),
            );
        }
    }
    run.states = progs.len() as u64 + cases.len() as u64;
    run.transitions = st.points + cases.len() as u64;
    run.set("bounds", json!({"base_configs": cfgs.iter().map(|c| format!("{c:?}")).collect::<Vec<_>>(), "rewrites": ["R1 let prefix","R2 into prefix","R6 module path","R3 user function (positional / named default omitted / named default given / piped / parameter named like a column)","R3w window function behind a user function (on the C04 window programs)","R3r two-sided range test behind a user function that uses its parameter twice","R4 conjunctive vs consecutive filters","R5 identities (filter true, select frame, derive-then-drop, repeat sort)"], "sites": "every applicable site", "instances": pool.len()}));
    run.set("rule", json!("state = base program or (base, site, rewrite); every rewritten program is compiled, executed and compared with the reference of the base program (the model proves base ≡ rewritten first); base programs on which the implementation already disagrees with the model are left to C01"));
    run.assume("differential over the reference model: base programs that already disagree with the model (C01 findings) are skipped here");
    run.finish()
}
