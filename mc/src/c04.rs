//! C04 — window functions see exactly the documented segment and keep the row count.

use crate::engine::{self, Ctx};
use crate::inst;
use crate::model::*;
use crate::relcheck::{check_program, Finding, Kind, Outcome};
use crate::report::{par_map, Run, Tier};
use crate::sqlite::Db;
use serde_json::json;

const FNS: [WinFn; 12] = [
    WinFn::Sum, WinFn::Min, WinFn::Max, WinFn::Average, WinFn::Count, WinFn::Lag, WinFn::Lead,
    WinFn::First, WinFn::Last, WinFn::Rank, WinFn::RankDense, WinFn::RowNumber,
];

fn frames() -> Vec<Option<FrameKind>> {
    use FrameKind::*;
    vec![
        None,
        Some(Rows(Some(-1), Some(0))),
        Some(Rows(Some(-1), Some(1))),
        Some(Rows(Some(0), Some(1))),
        Some(Rows(None, Some(0))),
        Some(Rows(Some(0), None)),
        Some(Rows(None, None)),
        Some(Rows(Some(-2), Some(-1))),
        Some(Rows(Some(1), Some(2))),
        Some(Range(Some(-1), Some(0))),
        Some(Range(Some(-1), Some(1))),
        Some(Range(None, Some(0))),
        Some(Rolling(1)),
        Some(Rolling(2)),
        Some(Rolling(3)),
        Some(Expanding),
    ]
}

#[derive(Clone, Copy, Debug, PartialEq)]
enum Place {
    Derive,
    Filter,
    Select,
    SortKey,
    DeriveThenFilter,
    FilterThenDerive,
    AfterTake,
    /// a frame-less aggregation upstream of the (bounded) window, at the same nesting level
    AfterPlainAggregate,
    /// … and downstream of it
    BeforePlainAggregate,
    /// a windowed filter right after a de-duplication (`group {a, b} (take 1)`): the window must see the
    /// distinct rows
    AfterDistinct,
    /// one filter whose condition is `plain && windowed`: the window must see the rows the plain operand removes
    FilterPlainAndWindowed,
    /// … and `windowed && plain`
    FilterWindowedAndPlain,
    /// the partition key is a computed column that the final select drops: the window is its only reader
    ComputedKeyDropped,
}

/// One window program. Base relation: `from t | select {a, b}` (closed) or `from t` (open).
pub fn gen(c: &mut Ctx, tier: Tier) -> Option<Program> {
    let open = c.flag("open-source");
    let places: &[Place] = match tier {
        Tier::Quick => &[Place::Derive, Place::Filter, Place::AfterPlainAggregate, Place::AfterDistinct, Place::AfterTake, Place::FilterPlainAndWindowed, Place::ComputedKeyDropped],
        Tier::Thorough => &[Place::Derive, Place::Filter, Place::Select, Place::SortKey, Place::DeriveThenFilter, Place::FilterThenDerive, Place::AfterTake, Place::AfterPlainAggregate, Place::BeforePlainAggregate, Place::AfterDistinct, Place::FilterPlainAndWindowed, Place::FilterWindowedAndPlain, Place::ComputedKeyDropped],
    };
    let place = *c.pick(places, "placement");
    let partitioned = c.flag("partition-by-a");
    // column indices in the frame the windowed step sees: [a, b] at top level, [b] inside group {a}
    let (ca, cb) = if place == Place::ComputedKeyDropped { (0, 1) } else if partitioned { (usize::MAX, 0) } else { (0, 1) };
    if place == Place::ComputedKeyDropped && !partitioned {
        return None;
    }
    let sorts: Vec<Option<Vec<(bool, E)>>> = if partitioned {
        // (the last one: a computed key, read by nothing but the window)
        vec![None, Some(vec![(false, E::Col(cb))]), Some(vec![(true, E::Col(cb))]), Some(vec![(false, E::bin(Op::Add, E::Col(cb), E::Int(1)))])]
    } else {
        vec![None, Some(vec![(false, E::Col(cb))]), Some(vec![(true, E::Col(cb))]), Some(vec![(false, E::Col(ca)), (true, E::Col(cb))])]
    };
    let sort = c.pick(&sorts, "sort").clone();
    let fr = *c.pick(&frames(), "frame");
    let f = *c.pick(&FNS, "fn");
    if place == Place::SortKey && (partitioned || sort.is_some()) {
        return None;
    }
    // a range frame is only defined relative to exactly one sort key
    if matches!(fr, Some(FrameKind::Range(..))) && sort.as_ref().map(|s| s.len()) != Some(1) {
        return None;
    }
    let arg = match f {
        WinFn::RowNumber => None,
        _ => Some(cb),
    };
    let win = E::Win(f, arg);
    let test = E::bin(Op::Gt, win.clone(), E::Int(1));
    let wstep = match place {
        Place::Derive | Place::DeriveThenFilter | Place::FilterThenDerive | Place::AfterTake | Place::AfterPlainAggregate | Place::BeforePlainAggregate | Place::ComputedKeyDropped => Step::Derive(vec![Item { alias: Some("w".into()), e: win }]),
        Place::Select => Step::Select(vec![Item { alias: None, e: E::Col(cb) }, Item { alias: Some("w".into()), e: win }]),
        Place::Filter | Place::AfterDistinct => Step::Filter(test),
        Place::FilterPlainAndWindowed => Step::Filter(E::bin(Op::And, E::bin(Op::Gt, E::Col(cb), E::Int(1)), test)),
        Place::FilterWindowedAndPlain => Step::Filter(E::bin(Op::And, test, E::bin(Op::Gt, E::Col(cb), E::Int(1)))),
        Place::SortKey => Step::Sort(vec![(false, win)]),
    };
    let mut inner: Vec<Step> = vec![];
    let plain = |name: &str| Step::Derive(vec![Item { alias: Some(name.into()), e: E::Win(WinFn::Max, Some(cb)) }, Item { alias: Some(format!("{name}c")), e: E::Win(WinFn::Count, Some(cb)) }]);
    if place == Place::AfterPlainAggregate {
        // no window, no sort yet: the value over the whole partition
        inner.push(plain("p"));
    }
    if let Some(s) = sort {
        inner.push(Step::Sort(s));
    }
    match fr {
        Some(kind) => inner.push(Step::Window { kind, inner: vec![wstep] }),
        None => inner.push(wstep),
    }
    if place == Place::BeforePlainAggregate {
        inner.push(plain("p"));
    }
    let mut steps: Vec<Step> = vec![];
    if !open {
        steps.push(Step::Select(vec![Item { alias: None, e: E::Col(0) }, Item { alias: None, e: E::Col(1) }]));
    }
    if place == Place::FilterThenDerive {
        steps.push(Step::Filter(E::bin(Op::Gt, E::Col(1), E::Int(1))));
    }
    if place == Place::AfterDistinct {
        if open {
            return None;
        }
        steps.push(Step::Group { keys: vec![0, 1], inner: vec![Step::Take(Some(1), Some(1))] });
    }
    if place == Place::AfterTake {
        steps.push(Step::Sort(vec![(true, E::Col(1)), (false, E::Col(0))]));
        steps.push(Step::Take(Some(1), Some(3)));
    }
    if place == Place::ComputedKeyDropped {
        // [a, b] → derive d → [a, b, d] → group {d} (…w) → [d, a, b, w] → select {b, w}
        steps.push(Step::Derive(vec![Item { alias: Some("d".into()), e: E::bin(Op::Add, E::Col(0), E::Int(1)) }]));
        steps.push(Step::Group { keys: vec![2], inner });
        steps.push(Step::Select(vec![Item { alias: None, e: E::Col(2) }, Item { alias: None, e: E::Col(3) }]));
    } else if partitioned {
        steps.push(Step::Group { keys: vec![0], inner });
    } else {
        steps.extend(inner);
    }
    if place == Place::DeriveThenFilter {
        // w is the last column
        let wi = 2;
        steps.push(Step::Filter(E::bin(Op::Gt, E::Col(wi), E::Int(1))));
    }
    let mut prog = Program::default();
    prog.main = Some(Pipeline { src: Source::Table("t".into()), steps });
    // inside `group {a} (…)` the key may be named in the sort as well; it is constant within a partition, so
    // the program means the same
    // (the key is only nameable inside the group when the relation is open, i.e. read through its wildcard)
    let key_rep = partitioned && c.flag("key-repeated-in-sort");
    // (a range frame is only defined relative to exactly one sort key)
    if (key_rep && (!open || matches!(fr, Some(FrameKind::Range(..))))) || (tier == Tier::Quick && open && !key_rep) {
        return None;
    }
    if key_rep {
        let txt = pr_program(&prog);
        if txt.contains("(sort {-b}") {
            prog.text_rewrites.push(("(sort {-b}".into(), "(sort {a, -b}".into()));
        } else if txt.contains("(sort {b}") {
            prog.text_rewrites.push(("(sort {b}".into(), "(sort {a, b}".into()));
        } else {
            return None;
        }
    }
    Some(prog)
}

/// the window programs as text (for the checks that walk RQ or look for panics)
pub fn program_texts(tier: Tier) -> Vec<String> {
    let (cases, _) = engine::collect(0, |c| gen(c, tier));
    let mut seen = std::collections::HashSet::new();
    cases.into_iter().map(|(p, _)| pr_program(&p)).filter(|t| seen.insert(t.clone())).collect()
}

fn keyfn(f: &Finding, p: &Program, o: &Outcome) -> Option<String> {
    crate::causes::window_key(f, p, o).or_else(|| crate::causes::c01_key(f, p, o))
}

pub fn run(tier: Tier) -> i32 {
    let mut run = Run::new("C04", tier);
    let (cases, st) = engine::collect(0, |c| gen(c, tier));
    let mut seen = std::collections::HashSet::new();
    let cases: Vec<(Program, Vec<usize>)> = cases.into_iter().filter(|(p, _)| seen.insert(pr_program(p))).collect();
    let mut pool = inst::pool();
    // windows need longer partitions with total orders
    let i = |x: i64| V::Int(x);
    pool.push(Inst { name: "w-6-unique".into(), t: vec![vec![i(1), i(6)], vec![i(1), i(2)], vec![i(1), i(4)], vec![i(2), i(5)], vec![i(2), i(1)], vec![i(2), i(3)]], u: vec![] });
    pool.push(Inst { name: "w-5-one-partition".into(), t: vec![vec![i(7), i(3)], vec![i(7), i(1)], vec![i(7), i(5)], vec![i(7), i(2)], vec![i(7), i(4)]], u: vec![] });
    pool.push(Inst { name: "w-nulls-in-arg".into(), t: vec![vec![i(1), V::Null], vec![i(2), i(2)], vec![i(3), V::Null], vec![i(4), i(4)]], u: vec![] });
    let outcomes: Vec<Outcome> = par_map(&cases, Db::new, |db, (p, _)| check_program(db, p, &pool));
    for ((p, ch), o) in cases.iter().zip(&outcomes) {
        run.validated += o.decided;
        run.count("programs", 1);
        run.count("instance_runs_decided", o.decided);
        for (k, v) in &o.undecided {
            run.count(&format!("undecided: {k}"), *v);
        }
        if o.decided == 0 && o.findings.is_empty() {
            run.count("programs_decided_on_no_instance", 1);
        }
        run.observe(o.outcome_hash ^ crate::report::fnv(&o.sqls.first().map(|s| s.1.clone()).unwrap_or_default()));
        if o.findings.is_empty() && run.samples.len() < 6 && o.decided > 10 && o.text.contains("window") {
            run.sample(json!({"prql": o.text, "sql_sqlite": o.sqls.first().map(|s| &s.1), "instances_decided": o.decided}));
        }
        for f in &o.findings {
            run.count(&format!("finding_kind:{:?}", f.kind), 1);
            if matches!(f.kind, Kind::CompileReject | Kind::Panic) {
                let norm: String = f.msg.chars().take(110).collect();
                run.count(&format!("not_compiled: {norm}"), 1);
                if std::env::var("MC_DUMP").is_ok() {
                    eprintln!("NOTCOMPILED\t{}\t{}", norm, o.text.trim().replace('\n', " | "));
                }
                continue;
            }
            if f.kind == Kind::Names {
                continue;
            }
            let key = keyfn(f, p, o);
            run.violate(
                key,
                format!("[{:?}/{}] {} :: {}", f.kind, f.dialect, o.text.trim().replace('\n', " | "), f.msg),
                json!({"driver":"AP-window","choices": ch, "prql": o.text, "dialect": f.dialect, "kind": format!("{:?}", f.kind),
                       "instance": f.inst.as_ref().map(|i| i.show()), "sql": f.sql, "expected": f.expected, "got": f.got, "msg": f.msg}),
            );
        }
    }
    join_condition_part(&mut run);
    over_clause_part(&mut run, &cases);
    run.states = cases.len() as u64;
    run.transitions = st.points;
    run.set("bounds", json!({"partition": ["none","a"], "sort": ["none","b","-b","{a,-b}"], "frames": frames().iter().map(|f| format!("{f:?}")).collect::<Vec<_>>(),
        "functions": FNS.iter().map(|f| f.name()).collect::<Vec<_>>(), "placements": tier.pick(5, 10), "sources": tier.pick("closed", "closed+open"), "instances": pool.len(), "engine_executions": st.executions}));
    run.set("rule", json!("states = distinct window programs; validated = (program, instance, target) triples executed on SQLite and compared (multiset, or admissible order) with the reference window evaluation; positional functions / rows frames are decided only where the order is total in every partition"));
    run.assume("SQLite window functions are trusted; range frames decided only for a single non-null numeric key");
    run.finish()
}


/// A windowed value used in a join condition, against the same value derived one step earlier and referred to by
/// name (that form is what the main exploration — placement Derive — and C01's joins decide). Product: 5 frame-less
/// aggregation functions x 2 preceding sorts x 4 right-hand relations x 2 join sides; both forms are executed on
/// the instance pool and must return the same rows.
fn join_condition_part(run: &mut Run) {
    use crate::model::{row_cmp, row_eq};
    use crate::relcheck::{dname, opts, EXEC_DIALECTS};
    let fns = ["sum t.b", "count t.b", "max t.b", "min t.b", "average t.b"];
    let sorts = ["", "sort {t.b} | "];
    let rights: [(&str, &str); 4] = [("", "r=(from u | select {a, d})"), ("", "r=u"), ("let q = (from u | select {a, d})\n", "r=q"), ("", "r=(from u | select {a, d} | filter d > 0)")];
    let sides = ["", "side:left "];
    let pool = crate::inst::pool();
    let db = Db::new();
    let mut reported = std::collections::BTreeSet::new();
    for f in fns {
        for srt in sorts {
            for (defs, right) in rights {
                for side in sides {
                    let in_cond = format!("{defs}from t | select {{a, b}} | {srt}join {side}{right} (t.a == r.a && ({f}) > 1) | select {{t.a, t.b, r.d}}");
                    let by_name = format!("{defs}from t | select {{a, b}} | {srt}derive {{w = {f}}} | join {side}{right} (t.a == r.a && w > 1) | select {{t.a, t.b, r.d}}");
                    for d in EXEC_DIALECTS.iter() {
                        run.count("join_condition:cases", 1);
                        let compile = |s: &str| match crate::iso::guard(|| prqlc::compile(s, &opts(*d))) {
                            Ok(Ok(sql)) => Ok(sql),
                            Ok(Err(e)) => Err(crate::relcheck::err_text(&e)),
                            Err(p) => Err(format!("panic at {}", p.site)),
                        };
                        let Ok(bsql) = compile(&by_name) else {
                            run.count("join_condition:named_form_not_compiled", 1);
                            continue;
                        };
                        let csql = match compile(&in_cond) {
                            Ok(s) => s,
                            Err(e) => {
                                if reported.insert(("rejected".to_string(), right.to_string())) {
                                    run.violate(Some("window-in-join-condition-rejected".into()), format!("[{}] {} is rejected ({e}); with the value derived first it compiles", dname(*d), in_cond.replace('\n', " | ")), json!({"driver":"join-condition","prql": in_cond, "by_name": by_name, "dialect": dname(*d)}));
                                }
                                continue;
                            }
                        };
                        for inst in pool.iter() {
                            db.load(inst);
                            let (a, b) = (db.query(&csql), db.query(&bsql));
                            run.validated += 1;
                            let same = match (&a, &b) {
                                (Ok((_, r1)), Ok((_, r2))) => {
                                    let (mut r1, mut r2) = (r1.clone(), r2.clone());
                                    r1.sort_by(|x, y| row_cmp(x, y));
                                    r2.sort_by(|x, y| row_cmp(x, y));
                                    r1.len() == r2.len() && r1.iter().zip(&r2).all(|(x, y)| row_eq(x, y))
                                }
                                (Err(_), Err(_)) => true,
                                _ => false,
                            };
                            if !same {
                                if reported.insert((f.to_string(), right.to_string())) {
                                    let show = |r: &Result<(Vec<String>, Vec<Vec<crate::model::V>>), String>| match r {
                                        Ok((_, rows)) => crate::relcheck::show_rows(rows),
                                        Err(e) => format!("engine: {e}"),
                                    };
                                    run.violate(
                                        Some(format!("window-in-join-condition-differs-from-derived-value:{}", if right.contains("(from") { "inline-pipeline" } else { "named-relation" })),
                                        format!("[{}] {} returns {}; with the value derived first: {} (on {})", dname(*d), in_cond.replace('\n', " | "), show(&a), show(&b), inst.show()),
                                        json!({"driver":"join-condition","prql": in_cond, "by_name": by_name, "dialect": dname(*d), "sql": csql, "sql_by_name": bsql, "instance": inst.show()}),
                                    );
                                }
                                break;
                            }
                        }
                    }
                }
            }
        }
    }
}


/// the window specifications of a statement: the text of every `OVER (…)`, quote characters removed, in order
fn over_clauses(sql: &str) -> Vec<String> {
    let mut out = vec![];
    let b = sql.as_bytes();
    let mut i = 0;
    while let Some(k) = sql[i..].find("OVER (") {
        let start = i + k + 6;
        let mut depth = 1;
        let mut j = start;
        while j < b.len() && depth > 0 {
            match b[j] {
                b'(' => depth += 1,
                b')' => depth -= 1,
                _ => {}
            }
            j += 1;
        }
        let inner: String = sql[start..j.saturating_sub(1)].chars().filter(|c| !matches!(c, '"' | '`' | '[' | ']')).collect();
        let mut spec = inner.split_whitespace().collect::<Vec<_>>().join(" ");
        // sql.snowflake gives every window without an order the constant order `ORDER BY 1` (it demands an ORDER BY
        // for ROW_NUMBER): all rows are peers under it, the segment is the same as without an order
        if let Some(rest) = spec.strip_prefix("ORDER BY 1") {
            if rest.is_empty() || rest.starts_with(" ROWS") || rest.starts_with(" RANGE") {
                spec = rest.trim_start().to_string();
            }
        } else if let Some(k) = spec.find(" ORDER BY 1") {
            let rest = &spec[k + 11..];
            if rest.is_empty() || rest.starts_with(" ROWS") || rest.starts_with(" RANGE") {
                spec = format!("{}{}", &spec[..k], rest);
            }
        }
        out.push(spec);
        i = j;
    }
    out
}

/// Dialects that cannot be executed here: for every window program that compiles, the window specifications
/// (partition, order, frame of every OVER clause) of each dialect's statement must be those of the statement
/// for sql.sqlite, which the main exploration executes and compares with the reference evaluation — a dialect's
/// own rendering of a function must not lose or change the segment the function sees.
fn over_clause_part(run: &mut Run, cases: &[(Program, Vec<usize>)]) {
    use crate::relcheck::{all_dialects, dname, opts};
    use prqlc::sql::Dialect;
    let texts: Vec<String> = cases.iter().map(|(p, _)| pr_program(p)).collect();
    let outs: Vec<Vec<(String, String, String, String)>> = par_map(&texts, || (), |_, src| {
        let compile = |d: Dialect| match crate::iso::guard(|| prqlc::compile(src, &opts(d))) {
            Ok(Ok(sql)) => Some(sql),
            _ => None,
        };
        let Some(base) = compile(Dialect::SQLite) else { return vec![] };
        let want = over_clauses(&base);
        let mut bad = vec![];
        for d in all_dialects() {
            if matches!(d, Dialect::SQLite) {
                continue;
            }
            let Some(sql) = compile(d) else { continue };
            let got = over_clauses(&sql);
            if got != want {
                bad.push((dname(d), sql, format!("{got:?}"), format!("{want:?}")));
            }
        }
        bad
    });
    for (src, bad) in texts.iter().zip(outs) {
        run.count("over_clauses:programs", 1);
        run.validated += 11;
        for (d, sql, got, want) in bad {
            // which function's clause differs: the text before the first differing OVER
            let f = FNS.iter().map(|f| f.name()).find(|n| src.contains(&format!("{n} ")) || src.contains(&format!("{n}}}"))).unwrap_or("?");
            run.violate(
                Some(format!("window-specification-differs-between-dialects:{d}:{f}")),
                format!("[{d}] {} → {sql} :: OVER clauses {got}, for sql.sqlite {want}", src.trim().replace('\n', " | ")),
                json!({"driver":"over-clauses","prql": src, "dialect": d, "sql": sql, "got": got, "want": want}),
            );
        }
    }
}
