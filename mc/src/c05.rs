//! C05 — result columns are exactly the final frame: names, count and order.

use crate::apgen::{GenCfg, Letters, SrcKind};
use crate::model::*;
use crate::relcheck::{Finding, Kind, Outcome};
use crate::relrun::{self, RelSpec};
use crate::report::Tier;

pub fn keyfn(f: &Finding, p: &Program, o: &Outcome) -> Option<String> {
    crate::causes::c01_key(f, p, o).or_else(|| crate::causes::names_key(f, p, o))
}

pub fn spec(tier: Tier) -> RelSpec {
    let mk = |depth, sources: Vec<SrcKind>, max_joins| GenCfg { depth, sources, max_joins, letters: Letters::Naming };
    // exploration aid (not a registered tier): MC_C05_DEPTH=3
    if let Ok(d) = std::env::var("MC_C05_DEPTH") {
        let d: usize = d.parse().unwrap_or(3);
        return RelSpec { property: "C05", cfgs: vec![mk(d, vec![SrcKind::OpenT, SrcKind::LetClosed], 1)], exh_depth: 0, exh_size: (1, 1), decides: vec![Kind::Arity, Kind::Names], keyfn, extra: None };
    }
    let cfgs = match tier {
        Tier::Quick => vec![
            mk(2, vec![SrcKind::OpenT, SrcKind::LetClosed, SrcKind::SubClosed, SrcKind::Literal], 1),
            // sort / aggregate / projection interplay one step deeper over the small Split alphabet
            GenCfg { depth: 3, sources: vec![SrcKind::OpenT, SrcKind::LetClosed], max_joins: 1, letters: Letters::Split },
        ],
        // depth 2 over all source kinds with two joins, and every depth-3 program over the two basic source kinds
        Tier::Thorough => vec![mk(2, vec![SrcKind::OpenT, SrcKind::LetClosed, SrcKind::SubClosed, SrcKind::Literal, SrcKind::LetSorted], 2), mk(3, vec![SrcKind::OpenT, SrcKind::LetClosed], 1)],
    };
    RelSpec {
        property: "C05",
        cfgs,
        exh_depth: 0,
        exh_size: (1, 1),
        decides: vec![Kind::Arity, Kind::Names],
        keyfn,
        extra: Some(sstring_part),
    }
}

/// Relations given as SQL text (`from s"SELECT … FROM …"`): every projection list of up to 3 (quick: 2) items over
/// bare, qualified and aliased columns of one or two tables, alone and followed by a transform that keeps / cuts
/// the pipeline. The frame of such a relation is what the SQL text projects: the compiled statement must return
/// the columns — names, count, order — and the rows that the text returns when run directly.
fn sstring_part(run: &mut crate::report::Run, tier: Tier) {
    use crate::relcheck::{dname, opts, EXEC_DIALECTS};
    use serde_json::json;
    const ITEMS: &[&str] = &["a", "b", "t.a", "t.b", "b AS x", "t.a AS y", "u.d", "u.a", "a AS b"];
    const TAILS: &[(&str, &[&str])] = &[("", &[]), (" | take 5", &[]), (" | derive {zz = 1}", &["zz"]), (" | take 5 | filter true", &[])];
    let maxlen = tier.pick(2, 3);
    let mut lists: Vec<Vec<&str>> = vec![];
    let mut frontier: Vec<Vec<&str>> = vec![vec![]];
    for _ in 0..maxlen {
        let mut next = vec![];
        for l in &frontier {
            for it in ITEMS {
                let mut l2 = l.clone();
                l2.push(*it);
                next.push(l2);
            }
        }
        lists.extend(next.clone());
        frontier = next;
    }
    let db = crate::sqlite::Db::new();
    let _ = db.exec_batch("INSERT INTO t VALUES (1, 10), (2, 20), (3, NULL); INSERT INTO u VALUES (1, 7), (2, 8), (9, 9);");
    let mut reported = std::collections::BTreeSet::new();
    for l in &lists {
        let joined = l.iter().any(|i| i.starts_with("u."));
        let from = if joined { "t JOIN u ON t.a = u.a" } else { "t" };
        let raw = format!("SELECT {} FROM {from}", l.join(", "));
        // the text itself must be a valid query (a bare `a` over the join is ambiguous in SQL)
        let Ok((raw_names, mut raw_rows)) = db.query(&raw) else { continue };
        raw_rows.sort_by(|x, y| row_cmp(x, y));
        for (tail, added) in TAILS {
            let src = format!("from s\"{raw}\"{tail}");
            for d in EXEC_DIALECTS.iter() {
                run.count("sstring_relations:cases", 1);
                let sql = match crate::iso::guard(|| prqlc::compile(&src, &opts(*d))) {
                    Ok(Ok(s)) => s,
                    // a relation the compiler cannot take (duplicate names in a later transform …) is not a wrong frame
                    _ => {
                        run.count("sstring_relations:not_compiled", 1);
                        continue;
                    }
                };
                run.validated += 1;
                let want: Vec<String> = raw_names.iter().cloned().chain(added.iter().map(|s| s.to_string())).collect();
                let bad = match db.query(&sql) {
                    Err(e) => Some(format!("engine rejects the statement: {e}")),
                    Ok((names, mut rows)) => {
                        // SQLite labels the second of two same-named columns of a sub-query `name:1`
                        let names: Vec<String> = names
                            .into_iter()
                            .map(|n| match n.rsplit_once(':') {
                                Some((base, k)) if !k.is_empty() && k.chars().all(|c| c.is_ascii_digit()) => base.to_string(),
                                _ => n,
                            })
                            .collect();
                        rows.sort_by(|x, y| row_cmp(x, y));
                        if names != want {
                            Some(format!("columns {names:?}, the SQL text projects {want:?}"))
                        } else if tail.is_empty() && !(rows.len() == raw_rows.len() && rows.iter().zip(&raw_rows).all(|(x, y)| row_eq(x, y))) {
                            Some("same columns, different rows".to_string())
                        } else {
                            None
                        }
                    }
                };
                if let Some(why) = bad {
                    let sorted_names = {
                        let mut s = raw_names.clone();
                        s.sort();
                        s.dedup();
                        s
                    };
                    let key = if why.starts_with("columns") && !raw_names.windows(2).all(|w| w[0] < w[1]) && !l.iter().any(|i| i.contains('.')) {
                        let _ = sorted_names;
                        "sstring-relation-columns-sorted-and-merged-by-name".to_string()
                    } else {
                        format!("sstring-relation-frame-differs-from-sql-text:{}", dname(*d))
                    };
                    if reported.insert((key.clone(), l.clone())) {
                        run.violate(Some(key), format!("[{}] {src} → {} :: {why}", dname(*d), sql.replace('\n', " ")), json!({"driver":"sstring","prql": src, "dialect": dname(*d), "sql": sql, "detail": why}));
                    }
                }
            }
        }
    }
    run.count("sstring_relations:projection_lists", lists.len() as u64);
}

pub fn run(tier: Tier) -> i32 {
    // dialects with a column-exclusion facility (and one without) are judged on the column list of the statement
    let _ = crate::relcheck::STATIC_NAME_DIALECTS.set(vec![prqlc::sql::Dialect::DuckDb, prqlc::sql::Dialect::BigQuery, prqlc::sql::Dialect::Snowflake, prqlc::sql::Dialect::Postgres]);
    relrun::run(spec(tier), tier)
}
