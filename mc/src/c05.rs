//! C05 — result columns are exactly the final frame: names, count and order.

use crate::apgen::{GenCfg, Letters, SrcKind};
use crate::model::*;
use crate::relcheck::{Finding, Kind, Outcome};
use crate::relrun::{self, RelSpec};
use crate::report::Tier;

pub fn keyfn(f: &Finding, p: &Program, o: &Outcome) -> Option<String> {
    crate::causes::c01_key(f, p, o).or_else(|| crate::causes::names_key(f, p, o))
}

pub fn spec(tier: Tier) -> RelSpec {
    let mk = |depth, sources: Vec<SrcKind>, max_joins| GenCfg { depth, sources, max_joins, letters: Letters::Naming };
    // exploration aid (not a registered tier): MC_C05_DEPTH=3
    if let Ok(d) = std::env::var("MC_C05_DEPTH") {
        let d: usize = d.parse().unwrap_or(3);
        return RelSpec { property: "C05", cfgs: vec![mk(d, vec![SrcKind::OpenT, SrcKind::LetClosed], 1)], exh_depth: 0, exh_size: (1, 1), decides: vec![Kind::Arity, Kind::Names], keyfn };
    }
    let cfgs = match tier {
        Tier::Quick => vec![
            mk(2, vec![SrcKind::OpenT, SrcKind::LetClosed, SrcKind::SubClosed, SrcKind::Literal], 1),
            // sort / aggregate / projection interplay one step deeper over the small Split alphabet
            GenCfg { depth: 3, sources: vec![SrcKind::OpenT, SrcKind::LetClosed], max_joins: 1, letters: Letters::Split },
        ],
        // depth 2 over all source kinds with two joins, and every depth-3 program over the two basic source kinds
        Tier::Thorough => vec![mk(2, vec![SrcKind::OpenT, SrcKind::LetClosed, SrcKind::SubClosed, SrcKind::Literal, SrcKind::LetSorted], 2), mk(3, vec![SrcKind::OpenT, SrcKind::LetClosed], 1)],
    };
    RelSpec {
        property: "C05",
        cfgs,
        exh_depth: 0,
        exh_size: (1, 1),
        decides: vec![Kind::Arity, Kind::Names],
        keyfn,
    }
}

pub fn run(tier: Tier) -> i32 {
    // dialects with a column-exclusion facility (and one without) are judged on the column list of the statement
    let _ = crate::relcheck::STATIC_NAME_DIALECTS.set(vec![prqlc::sql::Dialect::DuckDb, prqlc::sql::Dialect::BigQuery, prqlc::sql::Dialect::Snowflake, prqlc::sql::Dialect::Postgres]);
    relrun::run(spec(tier), tier)
}
