//! AP driver: enumerates well-scoped abstract programs. The menu at each choice point is
//! computed from the current frame, so every program is well-scoped by construction.

use crate::engine::Ctx;
use crate::model::*;

#[derive(Clone, Debug)]
pub struct GenCfg {
    pub depth: usize,
    /// which start sources are offered
    pub sources: Vec<SrcKind>,
    pub max_joins: usize,
    pub letters: Letters,
}

#[derive(Clone, Copy, Debug, PartialEq, Eq)]
pub enum SrcKind {
    OpenT,
    LetClosed,
    LetSorted,
    /// a sorted let-table read by a second let-table (`w = from q | take 2`) and by the main pipeline
    LetSortedTwoReaders,
    Literal,
    SubClosed,
    /// a let-table `q` is defined but the main pipeline starts from the closed `u` relation: `q` is first
    /// read by a later step (append / join)
    LetSide,
}

#[derive(Clone, Copy, Debug, PartialEq, Eq)]
pub enum Letters {
    /// the C01 relational core
    Core,
    /// order-relevant sub-alphabet (C03): programs must contain a sort
    Order,
    /// naming sub-alphabet (C05)
    Naming,
    /// small alphabet around the rules that cut a pipeline into sub-queries: a constant / computed column,
    /// filter, sort, take, joins of every side, aggregates over the newest column — enumerated one step deeper
    Split,
    /// the order-relevant part of Split (sorts, take, inner/left join, filter, group-aggregate, projection):
    /// small enough for depth 4
    OrderSplit,
    /// chains of takes under changing orders: a column sorted both ways, a second column, two takes, a projection,
    /// a grouped aggregate (which makes the flattener drop sorts) — small enough for depth 5
    TakeChain,
}

#[derive(Clone, Debug)]
pub struct GenState {
    pub frame: Frame,
    pub ordered: bool,
    pub joins: usize,
    pub sorts: usize,
    /// a column was renamed to a case variant of its name: no join may follow (see the naming menu)
    pub case_renamed: bool,
}

pub fn lit_source() -> Source {
    Source::Lit(
        vec!["a".into(), "b".into()],
        vec![vec![V::Int(1), V::Int(2)], vec![V::Int(2), V::Null], vec![V::Int(2), V::Int(1)]],
    )
}

pub fn closed_t() -> Pipeline {
    Pipeline {
        src: Source::Table("t".into()),
        steps: vec![Step::Select(vec![Item { alias: None, e: E::Col(0) }, Item { alias: None, e: E::Col(1) }])],
    }
}

pub fn closed_u() -> Pipeline {
    Pipeline {
        src: Source::Table("u".into()),
        steps: vec![Step::Select(vec![Item { alias: None, e: E::Col(0) }, Item { alias: None, e: E::Col(1) }])],
    }
}

/// `from u | select {a, d} | sort {-d}`: a joined pipeline with an order of its own
pub fn sorted_u() -> Pipeline {
    let mut p = closed_u();
    p.steps.push(Step::Sort(vec![(false, E::Col(1))]));
    p
}

/// `from u | select {a, d} | take 2`: a joined pipeline with a take and no order of its own
pub fn taking_u() -> Pipeline {
    let mut p = closed_u();
    p.steps.push(Step::Take(None, Some(2)));
    p
}

/// `from u | select {a, d} | join l=(from t | select {b}) (d == l.b)`: output columns a, d, b (distinct names)
pub fn nested_join_u() -> Pipeline {
    let mut p = closed_u();
    let only_b = Pipeline { src: Source::Table("t".into()), steps: vec![Step::Select(vec![Item { alias: None, e: E::Col(1) }])] };
    p.steps.push(Step::Join { side: Side::Inner, right: Source::Sub(Box::new(only_b)), alias: Some("l".into()), cond: Cond::Expr(E::bin(Op::Eq, E::Col(1), E::Col(2))) });
    p
}

/// `from u | select {d} | join l=q (d == l.b)`: the let-table as second input; output columns d, a, b
/// (distinct names: a sub-pipeline exposing the same name twice runs into a recorded defect, see C16)
pub fn nested_join_let() -> Pipeline {
    Pipeline {
        src: Source::Table("u".into()),
        steps: vec![
            Step::Select(vec![Item { alias: None, e: E::Col(1) }]),
            Step::Join { side: Side::Inner, right: Source::Let(0), alias: Some("l".into()), cond: Cond::Expr(E::bin(Op::Eq, E::Col(0), E::Col(2))) },
        ],
    }
}

fn col_item(i: usize) -> Item {
    Item { alias: None, e: E::Col(i) }
}

fn plus1(i: usize) -> E {
    E::bin(Op::Add, E::Col(i), E::Int(1))
}

/// does the relation produced by this pipeline have an order in effect (statically)?
pub fn pipeline_ordered(p: &Pipeline, prog: &Program) -> bool {
    let mut o = match &p.src {
        Source::Let(i) => pipeline_ordered(&prog.lets[*i].1, prog),
        Source::Sub(q) => pipeline_ordered(q, prog),
        _ => false,
    };
    for s in &p.steps {
        o = match s {
            Step::Sort(_) => true,
            Step::Group { .. } | Step::Aggregate(_) | Step::Append(_) => false,
            _ => o,
        };
    }
    o
}

fn menu_order_split(st: &GenState, cfg: &GenCfg) -> Vec<Step> {
    let f = &st.frame;
    let r = f.referencable();
    let mut m = vec![];
    let (Some(&first), Some(&last)) = (r.first(), r.last()) else { return m };
    m.push(Step::Sort(vec![(true, E::Col(first))]));
    if last != first {
        m.push(Step::Sort(vec![(false, E::Col(last))]));
        m.push(Step::Select(vec![col_item(first), col_item(last)]));
    }
    {
        // two columns of one bare name (the two sides of a join): a sort by both
        let same: Vec<usize> = r.iter().cloned().filter(|&i| f.cols[i].name.as_deref() == Some("a")).collect();
        if same.len() == 2 {
            m.push(Step::Sort(vec![(true, E::Col(same[0])), (false, E::Col(same[1]))]));
            m.push(Step::Sort(vec![(false, E::Col(same[1])), (true, E::Col(same[0]))]));
        }
    }
    if st.ordered {
        m.push(Step::Take(Some(1), Some(2)));
    }
    m.push(Step::Filter(E::bin(Op::Gt, E::Col(first), E::Int(1))));
    if st.joins < cfg.max_joins && f.cols.len() <= 4 {
        let n_a = f.cols.iter().filter(|c| c.name.as_deref() == Some("a")).count();
        if n_a == 1 && (0..f.cols.len()).any(|i| f.cols[i].name.as_deref() == Some("a") && f.refname(i).is_some()) {
            for side in [Side::Inner, Side::Left] {
                m.push(Step::Join { side, right: Source::Sub(Box::new(closed_u())), alias: Some("r".into()), cond: Cond::EqName("a".into()) });
            }
            // a join on other columns, so that the two `a` columns differ: a sort by both of them
            // (same bare name, two relations) must keep both keys
            if let Some(ib) = (0..f.cols.len()).find(|&i| f.cols[i].name.as_deref() == Some("b") && f.refname(i).is_some()) {
                m.push(Step::Join { side: Side::Inner, right: Source::Sub(Box::new(closed_u())), alias: Some("r".into()), cond: Cond::Expr(E::bin(Op::Eq, E::Col(ib), E::Col(f.cols.len() + 1))) });
            }
            // joined pipelines that sort / take themselves: their order must not become the order in
            // effect here, and the order in effect here must not select their rows
            m.push(Step::Join { side: Side::Inner, right: Source::Sub(Box::new(sorted_u())), alias: Some("r".into()), cond: Cond::EqName("a".into()) });
            m.push(Step::Join { side: Side::Inner, right: Source::Sub(Box::new(taking_u())), alias: Some("r".into()), cond: Cond::EqName("a".into()) });
        }
    }
    if last != first && !f.cols.iter().any(|c| matches!(c.name.as_deref(), Some("s"))) {
        let (_, map) = group_inner_frame(f, &[first]);
        if let Some(pos) = map.iter().position(|&i| i == last) {
            m.push(Step::Group { keys: vec![first], inner: vec![Step::Aggregate(vec![("s".into(), Agg::Sum, Some(pos))])] });
        }
        let (_, map) = group_inner_frame(f, &[last]);
        if let Some(pos) = map.iter().position(|&i| i == first) {
            m.push(Step::Group { keys: vec![last], inner: vec![Step::Aggregate(vec![("s".into(), Agg::Sum, Some(pos))])] });
        }
    }
    m
}

fn menu_split(st: &GenState, cfg: &GenCfg) -> Vec<Step> {
    let f = &st.frame;
    let r = f.referencable();
    let mut m = vec![];
    let (Some(&first), Some(&last)) = (r.first(), r.last()) else { return m };
    if !f.cols.iter().any(|c| c.name.as_deref() == Some("z")) {
        m.push(Step::Derive(vec![Item { alias: Some("z".into()), e: E::Int(1) }]));
    }
    if !f.cols.iter().any(|c| c.name.as_deref() == Some("x")) {
        m.push(Step::Derive(vec![Item { alias: Some("x".into()), e: plus1(first) }]));
    }
    m.push(Step::Filter(E::bin(Op::Gt, E::Col(first), E::Int(1))));
    if last != first {
        m.push(Step::Filter(E::bin(Op::Gt, E::Col(last), E::Int(0))));
        m.push(Step::Select(vec![col_item(first), col_item(last)]));
        // a projection that drops the first column (a sort key, a group key)
        m.push(Step::Select(vec![col_item(last)]));
    }
    m.push(Step::Sort(vec![(false, E::Col(first))]));
    if last != first {
        m.push(Step::Sort(vec![(true, E::Col(last))]));
    }
    if st.ordered {
        m.push(Step::Take(Some(1), Some(2)));
    }
    if st.joins < cfg.max_joins && f.cols.len() <= 4 {
        let n_a = f.cols.iter().filter(|c| c.name.as_deref() == Some("a")).count();
        let left_a = n_a == 1 && (0..f.cols.len()).any(|i| f.cols[i].name.as_deref() == Some("a") && f.refname(i).is_some());
        if left_a {
            for side in [Side::Inner, Side::Left, Side::Right, Side::Full] {
                m.push(Step::Join { side, right: Source::Sub(Box::new(closed_u())), alias: Some("r".into()), cond: Cond::EqName("a".into()) });
            }
        }
    }
    // the newest computed column (z, else x) is what the aggregates read, wherever a join has put it
    let newest = r.iter().cloned().find(|&i| f.named(i) == Some("z")).or_else(|| r.iter().cloned().find(|&i| f.named(i) == Some("x")));
    let last = newest.unwrap_or(last);
    m.push(Step::Aggregate(vec![("n".into(), Agg::CountThis, None), ("s".into(), Agg::Sum, Some(last))]));
    m.push(Step::Aggregate(vec![("s".into(), Agg::Sum, Some(first))]));
    m.push(Step::Aggregate(vec![("c".into(), Agg::SumPlusCount, Some(last))]));
    // grouping by the newest computed column (a constant, when it is `z`)
    if let Some(nw) = newest {
        // (aliases of one tuple are in scope for its later items: keep `n` / `s` away from frames that hold them)
        if nw != first && !f.cols.iter().any(|c| matches!(c.name.as_deref(), Some("n") | Some("s"))) {
            let (gf, map) = group_inner_frame(f, &[nw]);
            if let Some(pos) = map.iter().position(|&i| i == first) {
                if gf.refname(pos).is_some() {
                    m.push(Step::Group { keys: vec![nw], inner: vec![Step::Aggregate(vec![("n".into(), Agg::CountThis, None), ("s".into(), Agg::Sum, Some(pos))])] });
                }
            }
        }
    }
    if last != first && f.named(first) != Some("s") {
        m.push(Step::Group { keys: vec![first], inner: vec![Step::Aggregate(vec![("s".into(), Agg::Sum, Some({
            // index of `last` inside the group's inner frame (keys removed)
            let (_, map) = group_inner_frame(f, &[first]);
            map.iter().position(|&i| i == last).unwrap_or(0)
        }))])] });
    }
    m
}

/// Menu of next steps for the current state.
pub fn menu(st: &GenState, prog: &Program, cfg: &GenCfg) -> Vec<Step> {
    if cfg.letters == Letters::Split {
        return menu_split(st, cfg);
    }
    if cfg.letters == Letters::OrderSplit {
        return menu_order_split(st, cfg);
    }
    if cfg.letters == Letters::TakeChain {
        let f = &st.frame;
        let r = f.referencable();
        let mut m = vec![];
        let (Some(&first), Some(&last)) = (r.first(), r.last()) else { return m };
        m.push(Step::Sort(vec![(false, E::Col(first))]));
        m.push(Step::Sort(vec![(true, E::Col(first))]));
        if last != first {
            m.push(Step::Sort(vec![(true, E::Col(last))]));
            m.push(Step::Select(vec![col_item(first), col_item(last)]));
        }
        if st.ordered {
            m.push(Step::Take(Some(1), Some(2)));
            m.push(Step::Take(Some(2), Some(3)));
        }
        if last != first && !f.cols.iter().any(|c| matches!(c.name.as_deref(), Some("s"))) {
            let (_, map) = group_inner_frame(f, &[first]);
            if let Some(pos) = map.iter().position(|&i| i == last) {
                m.push(Step::Group { keys: vec![first], inner: vec![Step::Aggregate(vec![("s".into(), Agg::Sum, Some(pos))])] });
            }
        }
        return m;
    }
    let f = &st.frame;
    let r: Vec<usize> = f.referencable();
    let r3: Vec<usize> = r.iter().cloned().take(3).collect();
    let r2: Vec<usize> = r.iter().cloned().take(2).collect();
    let mut m: Vec<Step> = vec![];
    let core = cfg.letters == Letters::Core;
    let order = cfg.letters == Letters::Order;
    let naming = cfg.letters == Letters::Naming;
    // when the frame lost the first columns, also look at the last referencable one
    let last = r.last().cloned();

    // ---- select
    for &i in &r3 {
        m.push(Step::Select(vec![col_item(i)]));
    }
    if core || naming {
        for &i in &r3 {
            for &j in &r3 {
                if i != j {
                    m.push(Step::Select(vec![col_item(i), col_item(j)]));
                }
            }
        }
    } else if r3.len() >= 2 {
        m.push(Step::Select(vec![col_item(r3[1]), col_item(r3[0])]));
    }
    if let (Some(&i), Some(&j)) = (r2.first(), r2.get(1)) {
        m.push(Step::Select(vec![Item { alias: Some("x".into()), e: plus1(i) }, col_item(j)]));
        if core || naming {
            m.push(Step::Select(vec![col_item(j), Item { alias: Some("x".into()), e: plus1(j) }]));
            // an alias that takes the name of another column
            if let Some(nj) = f.named(j) {
                m.push(Step::Select(vec![Item { alias: Some(nj.to_string()), e: plus1(i) }, col_item(i)]));
            }
        }
    } else if let Some(&i) = r2.first() {
        m.push(Step::Select(vec![Item { alias: Some("x".into()), e: plus1(i) }]));
    }
    if naming {
        // a pure rename to a name that differs from the column's own name only in letter case
        if let Some(&i) = r2.first() {
            if let Some(n) = f.named(i) {
                let up = n.to_uppercase();
                // no other column may carry the name in any case, now or later (joins are not offered afterwards)
                let clash = f.cols.iter().enumerate().any(|(k, c)| k != i && c.name.as_deref().map(|x| x.eq_ignore_ascii_case(n)).unwrap_or(false));
                if up != n && !clash {
                    let mut items = vec![Item { alias: Some(up), e: E::Col(i) }];
                    if let Some(&j) = r2.get(1) {
                        items.push(col_item(j));
                    }
                    // (only as a select: SQLite matches quoted names case-insensitively, so a relation that
                    // keeps both `a` and `A` cannot be observed on the substrate)
                    m.push(Step::Select(items));
                }
            }
        }
    }
    if naming {
        if let Some(&i) = r2.first() {
            // same column twice, and an unnamed computed column
            m.push(Step::Select(vec![col_item(i), col_item(i)]));
            m.push(Step::Select(vec![col_item(i), Item { alias: None, e: plus1(i) }]));
        }
    }

    // ---- select !{..}: over a fully known frame of >= 2 columns, every single exclusion (first 3) and one pair
    if (core || naming) && f.open.is_empty() && f.cols.len() >= 2 && r.len() == f.cols.len() {
        for &i in r.iter().take(3) {
            m.push(Step::SelectExcept(vec![i]));
        }
        if f.cols.len() >= 3 {
            m.push(Step::SelectExcept(vec![r[0], r[f.cols.len() - 1]]));
        }
    }

    // ---- select !{..} over an *open* frame (columns known only through a wildcard): one exclusion
    if naming && !f.open.is_empty() && r.len() >= 2 && r.len() == f.cols.len() {
        m.push(Step::SelectExcept(vec![r[0]]));
        if r.len() >= 4 {
            m.push(Step::SelectExcept(vec![r[1], r[3]]));
        }
    }

    // ---- derive
    for &i in &r2 {
        m.push(Step::Derive(vec![Item { alias: Some("x".into()), e: plus1(i) }]));
        if !order {
            if let Some(n) = f.named(i) {
                m.push(Step::Derive(vec![Item { alias: Some(n.to_string()), e: plus1(i) }]));
            }
        }
    }
    if core {
        if let Some(&i) = r2.first() {
            m.push(Step::Derive(vec![Item { alias: Some("n".into()), e: E::IsNull(Box::new(E::Col(i))) }]));
        }
    }
    // user functions (declared by `start`): positional call, and a two-parameter function whose
    // arguments are swapped relative to the column order
    if (core || naming) && prog.funcs.len() >= 2 {
        if let Some(&i) = r2.first() {
            m.push(Step::Derive(vec![Item { alias: Some("fx".into()), e: E::Call(0, vec![E::Col(i)]) }]));
            m.push(Step::Filter(E::bin(Op::Gt, E::Call(0, vec![E::Col(i)]), E::Int(2))));
        }
        if r2.len() == 2 {
            m.push(Step::Derive(vec![Item { alias: Some("fy".into()), e: E::Call(1, vec![E::Col(r2[1]), E::Col(r2[0])]) }]));
        }
    }

    // ---- filter
    for &i in &r2 {
        m.push(Step::Filter(E::bin(Op::Gt, E::Col(i), E::Int(1))));
        if core {
            m.push(Step::Filter(E::IsNull(Box::new(E::Col(i)))));
        }
    }
    if core && r2.len() == 2 {
        m.push(Step::Filter(E::bin(Op::Eq, E::Col(r2[0]), E::Col(r2[1]))));
    }
    if let Some(l) = last {
        if !r2.contains(&l) {
            m.push(Step::Filter(E::bin(Op::Gt, E::Col(l), E::Int(1))));
        }
    }

    // ---- sort
    if !naming || st.sorts == 0 {
        for &i in &r2 {
            m.push(Step::Sort(vec![(false, E::Col(i))]));
            m.push(Step::Sort(vec![(true, E::Col(i))]));
        }
        if r2.len() == 2 {
            m.push(Step::Sort(vec![(false, E::Col(r2[0])), (true, E::Col(r2[1]))]));
            if !naming {
                m.push(Step::Sort(vec![(false, E::bin(Op::Add, E::Col(r2[0]), E::Col(r2[1])))]));
            }
        }
        if let Some(l) = last {
            if !r2.contains(&l) && !naming {
                m.push(Step::Sort(vec![(true, E::Col(l))]));
            }
        }
    }

    // ---- take (only under an order)
    if st.ordered {
        m.push(Step::Take(Some(1), Some(1)));
        m.push(Step::Take(Some(1), Some(2)));
        if !naming {
            m.push(Step::Take(Some(2), None));
            m.push(Step::Take(Some(2), Some(3)));
        }
    }

    // ---- join
    if st.joins < cfg.max_joins && f.cols.len() <= 4 && !st.case_renamed {
        // `(==a)` is only offered where `this.a` is unambiguous: exactly one left column called `a`
        let n_a = f.cols.iter().filter(|c| c.name.as_deref() == Some("a")).count();
        let left_a = (0..f.cols.len()).rev().find(|&i| n_a == 1 && f.cols[i].name.as_deref() == Some("a") && f.refname(i).is_some());
        let rights: Vec<(Source, Option<String>)> = {
            let mut v = vec![(Source::Table("u".into()), None), (Source::Sub(Box::new(closed_u())), Some("r".to_string()))];
            if !prog.lets.is_empty() && (core || naming) {
                v.push((Source::Let(0), Some("l".to_string())));
            }
            if order {
                v.truncate(1);
            }
            // a sub-pipeline that itself joins: columns of its second input leave it implicitly
            if core || naming {
                v.push((Source::Sub(Box::new(nested_join_u())), Some("r".to_string())));
                if prog.lets.len() == 1 {
                    v.push((Source::Sub(Box::new(nested_join_let())), Some("r".to_string())));
                }
            }
            // a second let-table (reader of the first) can always be joined
            if prog.lets.len() >= 2 {
                v.push((Source::Let(1), Some("w".to_string())));
            }
            v
        };
        for (right, alias) in rights {
            let rf = source_frame(&right, alias.as_deref(), prog);
            // the right input must not reuse an alias already in scope
            if rf.inputs.iter().any(|i| f.inputs.contains(i)) {
                continue;
            }
            let nl = f.cols.len();
            for side in [Side::Inner, Side::Left] {
                if left_a.is_some() && rf.cols.iter().any(|c| c.name.as_deref() == Some("a")) {
                    m.push(Step::Join { side, right: right.clone(), alias: alias.clone(), cond: Cond::EqName("a".into()) });
                }
                if !order {
                    // first referencable left column == second right column
                    if let Some(&l0) = r2.first() {
                        let mut comb = f.clone();
                        comb.cols.extend(rf.cols.clone());
                        comb.inputs.extend(rf.inputs.clone());
                        comb.open.extend(rf.open.clone());
                        if comb.refname(l0).is_some() && comb.refname(nl + 1).is_some() {
                            m.push(Step::Join {
                                side,
                                right: right.clone(),
                                alias: alias.clone(),
                                cond: Cond::Expr(E::bin(Op::Eq, E::Col(l0), E::Col(nl + 1))),
                            });
                        }
                    }
                }
            }
            if core {
                m.push(Step::Join { side: Side::Inner, right: right.clone(), alias: alias.clone(), cond: Cond::True });
                // right / full outer joins against the closed relation
                if matches!(right, Source::Sub(_)) && left_a.is_some() {
                    m.push(Step::Join { side: Side::Right, right: right.clone(), alias: alias.clone(), cond: Cond::EqName("a".into()) });
                    m.push(Step::Join { side: Side::Full, right: right.clone(), alias: alias.clone(), cond: Cond::EqName("a".into()) });
                }
            }
        }
    }

    // ---- aggregate
    m.push(Step::Aggregate(vec![("n".into(), Agg::CountThis, None)]));
    for &i in &r2 {
        m.push(Step::Aggregate(vec![("s".into(), Agg::Sum, Some(i))]));
    }
    if !order {
        if let Some(&i) = r2.first() {
            m.push(Step::Aggregate(vec![("c".into(), Agg::SumPlusCount, Some(i))]));
            m.push(Step::Aggregate(vec![("m".into(), Agg::Min, Some(i)), ("x".into(), Agg::Max, Some(i))]));
            m.push(Step::Aggregate(vec![("v".into(), Agg::Average, Some(i)), ("n".into(), Agg::Count, Some(i))]));
        }
    }

    // ---- group
    if !r2.is_empty() {
        let keysets: Vec<Vec<usize>> =
            if r2.len() == 2 && !order { vec![vec![r2[0]], vec![r2[0], r2[1]]] } else { vec![vec![r2[0]]] };
        for ks in keysets {
            if !ks.iter().any(|&k| f.named(k) == Some("n")) {
                m.push(Step::Group { keys: ks.clone(), inner: vec![Step::Aggregate(vec![("n".into(), Agg::CountThis, None)])] });
            }
            // inside group the key columns are not part of the inner frame: use a non-key column
            let (gf, _) = group_inner_frame(f, &ks);
            let Some(other) = gf.referencable().first().cloned() else { continue };
            // an aggregate alias equal to a key name is left out (its meaning is not documented)
            let key_named = |n: &str| ks.iter().any(|&k| f.named(k) == Some(n));
            if !key_named("s") {
                m.push(Step::Group { keys: ks.clone(), inner: vec![Step::Aggregate(vec![("s".into(), Agg::Sum, Some(other))])] });
            }
            // a group whose pipeline *ends* in a sort, behind another transform: the frame is keys ++ inner frame
            if (core || naming) && ks.len() == 1 {
                m.push(Step::Group { keys: ks.clone(), inner: vec![Step::Filter(E::bin(Op::Gt, E::Col(other), E::Int(1))), Step::Sort(vec![(true, E::Col(other))])] });
                if !gf.cols.iter().any(|c| c.name.as_deref() == Some("x")) && !f.cols.iter().any(|c| c.name.as_deref() == Some("x")) {
                    m.push(Step::Group { keys: ks.clone(), inner: vec![Step::Derive(vec![Item { alias: Some("x".into()), e: plus1(other) }]), Step::Sort(vec![(false, E::Col(other))])] });
                }
                m.push(Step::Group { keys: ks.clone(), inner: vec![Step::Sort(vec![(true, E::Col(other))]), Step::Take(Some(1), Some(2)), Step::Sort(vec![(false, E::Col(other))])] });
            }
            // (naming alphabet) an aggregate that takes the name of the key: both columns are in the frame
            if naming && ks.len() == 1 {
                if let Some(kn) = f.named(ks[0]) {
                    m.push(Step::Group { keys: ks.clone(), inner: vec![Step::Aggregate(vec![(kn.to_string(), Agg::Sum, Some(other))])] });
                }
            }
            m.push(Step::Group {
                keys: ks.clone(),
                inner: vec![Step::Sort(vec![(false, E::Col(other))]), Step::Take(Some(1), Some(1))],
            });
            if core {
                m.push(Step::Group {
                    keys: ks.clone(),
                    inner: vec![Step::Sort(vec![(true, E::Col(other))]), Step::Take(Some(1), Some(2))],
                });
            }
        }
    }

    // ---- distinct: `group {all columns} (take 1)`
    if (core || naming) && f.open.is_empty() && !f.cols.is_empty() && f.cols.len() <= 2 && r.len() == f.cols.len() {
        m.push(Step::Group { keys: (0..f.cols.len()).collect(), inner: vec![Step::Take(Some(1), Some(1))] });
    }

    // ---- append
    // both sides must have a column list the compiler knows, or both be bare tables
    if (core || naming) && f.cols.len() == 2 && f.open.is_empty() {
        m.push(Step::Append(Source::Sub(Box::new(closed_u()))));
        if prog.lets.len() == 1 {
            m.push(Step::Append(Source::Let(0)));
        }
    }
    let bare_t = f.open.len() == 1 && f.inputs.len() == 1 && f.cols.len() == 2 && f.cols.iter().all(|c| c.input.is_some());
    if core && bare_t {
        m.push(Step::Append(Source::Table("u".into())));
    }
    m
}

pub fn start(kind: SrcKind) -> (Program, Pipeline) {
    let mut prog = Program::default();
    // two user functions available to every program: inc x = x + 1 ; sub2 x y = x - y * 2
    prog.funcs.push(UserFn { name: "inc".into(), params: vec!["p1".into()], named: vec![], style: CallStyle::Plain, body: E::bin(Op::Add, E::Col(0), E::Int(1)) });
    prog.funcs.push(UserFn {
        name: "sub2".into(),
        params: vec!["p1".into(), "p2".into()],
        named: vec![],
        style: CallStyle::Plain,
        body: E::bin(Op::Sub, E::Col(0), E::bin(Op::Mul, E::Col(1), E::Int(2))),
    });
    let src = match kind {
        SrcKind::OpenT => Source::Table("t".into()),
        SrcKind::LetClosed => {
            prog.lets.push(("q".into(), closed_t()));
            Source::Let(0)
        }
        SrcKind::LetSorted => {
            let mut p = closed_t();
            p.steps.push(Step::Sort(vec![(true, E::Col(1)), (false, E::Col(0))]));
            prog.lets.push(("q".into(), p));
            Source::Let(0)
        }
        SrcKind::LetSortedTwoReaders => {
            let mut p = closed_t();
            p.steps.push(Step::Sort(vec![(true, E::Col(1)), (false, E::Col(0))]));
            prog.lets.push(("q".into(), p));
            prog.lets.push(("w".into(), Pipeline { src: Source::Let(0), steps: vec![Step::Take(Some(1), Some(2))] }));
            Source::Let(0)
        }
        SrcKind::Literal => lit_source(),
        SrcKind::SubClosed => Source::Sub(Box::new(closed_t())),
        SrcKind::LetSide => {
            prog.lets.push(("q".into(), closed_t()));
            Source::Sub(Box::new(closed_u()))
        }
    };
    (prog, Pipeline { src, steps: vec![] })
}

/// One AP from the choice context: source kind, number of steps, each step from the menu.
pub fn gen_program(c: &mut Ctx, cfg: &GenCfg) -> Option<Program> {
    let kind = *c.pick(&cfg.sources, "source");
    let (mut prog, mut pipe) = start(kind);
    let mut st = GenState {
        frame: source_frame(&pipe.src, None, &prog),
        ordered: pipeline_ordered(&pipe, &prog),
        joins: 0,
        sorts: 0,
        case_renamed: false,
    };
    let k = 1 + c.choose(cfg.depth, "nsteps");
    for _ in 0..k {
        let m = menu(&st, &prog, cfg);
        if m.is_empty() {
            return None;
        }
        let s = c.pick(&m, "step").clone();
        st.frame = step_frame(&s, &st.frame, &prog);
        match &s {
            Step::Sort(_) => {
                st.ordered = true;
                st.sorts += 1
            }
            Step::Group { .. } | Step::Aggregate(_) | Step::Append(_) => st.ordered = false,
            Step::Join { .. } => st.joins += 1,
            Step::Select(items) => {
                if items.iter().any(|it| matches!((&it.alias, &it.e), (Some(a), E::Col(_)) if a.chars().any(|c| c.is_ascii_uppercase()))) {
                    st.case_renamed = true;
                }
            }
            _ => {}
        }
        pipe.steps.push(s);
    }
    if cfg.letters == Letters::Order && st.sorts == 0 && !pipeline_ordered(&pipe, &prog) {
        return None;
    }
    prog.main = Some(pipe);
    Some(prog)
}
