//! C16 — every emitted RQ is closed and consistently identified.
//! An invariant evaluated on every state: the walker runs over the *JSON* form of the RQ
//! (the documented contract of the staged API) of every program the resolver accepts.

use crate::apgen::{GenCfg, Letters, SrcKind};
use crate::iso::guard;
use crate::model::pr_program;
use crate::relrun::enumerate;
use crate::report::{fnv, par_map, Run, Tier};
use serde_json::{json, Value as J};
use std::collections::{BTreeMap, BTreeSet};

#[derive(Default)]
struct Walk {
    /// cid -> number of definitions
    defs: BTreeMap<i64, u32>,
    errs: Vec<(String, String)>,
    table_ids_before: BTreeSet<i64>,
    ctx: String,
    /// cid -> pipeline that defines it (filled by the first pass, read by the second)
    owner: BTreeMap<i64, String>,
    owner_known: BTreeMap<i64, String>,
}

impl Walk {
    fn err(&mut self, key: &str, msg: String) {
        if self.errs.len() < 8 {
            self.errs.push((key.to_string(), format!("{}: {}", self.ctx, msg)));
        }
    }
    fn define(&mut self, cid: i64, vis: &mut BTreeSet<i64>) {
        *self.defs.entry(cid).or_insert(0) += 1;
        self.owner.insert(cid, self.ctx.clone());
        vis.insert(cid);
    }
    /// identity of "an id of another pipeline is used here": where it is used, in which kind of pipeline,
    /// and which kind of pipeline defines it
    fn foreign_key(&self, owner: &str, what: &str) -> String {
        let kind = |c: &str| if c.starts_with("table") { "table" } else { "main" };
        format!("cid-of-another-pipeline-used:{what}:in-{}:defined-in-{}", kind(&self.ctx), kind(owner))
    }
    fn cid(v: &J) -> Option<i64> {
        v.as_i64()
    }
    fn uses_in_expr(&mut self, e: &J, vis: &BTreeSet<i64>, what: &str) {
        let Some(kind) = e.get("kind") else {
            self.err("malformed-expr", format!("expression without kind in {what}: {e}"));
            return;
        };
        if let Some(c) = kind.get("ColumnRef") {
            match Self::cid(c) {
                Some(c) if vis.contains(&c) => {}
                Some(c) => {
                    let key = match self.owner_known.get(&c) {
                        None => "cid-undefined".to_string(),
                        Some(o) if *o != self.ctx => self.foreign_key(o, what),
                        Some(_) => "cid-not-visible".to_string(),
                    };
                    self.err(&key, format!("column id {c} used in {what} is not visible there"))
                }
                None => self.err("malformed-expr", format!("ColumnRef {c}")),
            }
        } else if let Some(op) = kind.get("Operator") {
            for a in op["args"].as_array().cloned().unwrap_or_default() {
                self.uses_in_expr(&a, vis, what);
            }
        } else if let Some(cases) = kind.get("Case") {
            for c in cases.as_array().cloned().unwrap_or_default() {
                self.uses_in_expr(&c["condition"], vis, what);
                self.uses_in_expr(&c["value"], vis, what);
            }
        } else if let Some(items) = kind.get("SString") {
            for it in items.as_array().cloned().unwrap_or_default() {
                if let Some(e) = it.get("Expr") {
                    self.uses_in_expr(&e["expr"], vis, what);
                }
            }
        } else if let Some(items) = kind.get("Array") {
            for it in items.as_array().cloned().unwrap_or_default() {
                self.uses_in_expr(&it, vis, what);
            }
        }
    }
    fn use_cid(&mut self, c: &J, vis: &BTreeSet<i64>, what: &str) {
        match Self::cid(c) {
            Some(c) if vis.contains(&c) => {}
            Some(c) => {
                // the one recorded finding: the sort carried into a Take names a column that an
                // intervening Select dropped (defined in this pipeline, no longer visible)
                let key = match self.owner_known.get(&c) {
                    None => "cid-undefined".to_string(),
                    Some(o) if *o != self.ctx => self.foreign_key(o, what),
                    Some(_) if what == "Take.sort" => "take-sort-id-cut-off-by-select".to_string(),
                    Some(_) => "cid-not-visible".to_string(),
                };
                self.err(&key, format!("column id {c} used in {what} is not visible there"))
            }
            None => self.err("malformed", format!("not a column id in {what}: {c}")),
        }
    }
    fn table_ref(&mut self, r: &J, vis: &mut BTreeSet<i64>, define_visible: bool) {
        match r["source"].as_i64() {
            Some(t) if self.table_ids_before.contains(&t) => {}
            Some(t) => self.err("tid-not-declared-earlier", format!("table id {t} is referenced before / without its declaration")),
            None => self.err("malformed", format!("table ref without source: {r}")),
        }
        let mut scratch = BTreeSet::new();
        for c in r["columns"].as_array().cloned().unwrap_or_default() {
            if let Some(id) = c.get(1).and_then(|x| x.as_i64()) {
                if define_visible {
                    self.define(id, vis);
                } else {
                    self.define(id, &mut scratch);
                }
            } else {
                self.err("malformed", format!("table ref column without id: {c}"));
            }
        }
    }
    fn transforms(&mut self, ts: &[J], vis: &mut BTreeSet<i64>, top: bool) {
        for (i, t) in ts.iter().enumerate() {
            let (name, body) = match t.as_object().and_then(|o| o.iter().next()) {
                Some((k, v)) => (k.clone(), v.clone()),
                None => {
                    self.err("malformed", format!("transform {t}"));
                    continue;
                }
            };
            if top && i == 0 && name != "From" {
                self.err("pipeline-does-not-start-with-from", format!("first transform is {name}"));
            }
            if top && i > 0 && name == "From" {
                self.err("from-inside-pipeline", "From after the first transform".into());
            }
            match name.as_str() {
                "From" => self.table_ref(&body, vis, true),
                "Compute" => {
                    self.uses_in_expr(&body["expr"], vis, "Compute.expr");
                    if let Some(w) = body.get("window") {
                        for c in w["partition"].as_array().cloned().unwrap_or_default() {
                            self.use_cid(&c, vis, "window.partition");
                        }
                        for s in w["sort"].as_array().cloned().unwrap_or_default() {
                            self.use_cid(&s["column"], vis, "window.sort");
                        }
                        for b in ["start", "end"] {
                            if let Some(e) = w["frame"]["range"].get(b) {
                                if !e.is_null() {
                                    self.uses_in_expr(e, vis, "window.frame");
                                }
                            }
                        }
                    }
                    match body["id"].as_i64() {
                        Some(id) => self.define(id, vis),
                        None => self.err("malformed", "Compute without id".into()),
                    }
                }
                "Select" => {
                    let mut next = BTreeSet::new();
                    for c in body.as_array().cloned().unwrap_or_default() {
                        self.use_cid(&c, vis, "Select");
                        if let Some(c) = c.as_i64() {
                            next.insert(c);
                        }
                    }
                    *vis = next;
                }
                "Filter" => self.uses_in_expr(&body, vis, "Filter"),
                "Aggregate" => {
                    let mut next = BTreeSet::new();
                    for k in ["partition", "compute"] {
                        for c in body[k].as_array().cloned().unwrap_or_default() {
                            self.use_cid(&c, vis, "Aggregate");
                            if let Some(c) = c.as_i64() {
                                next.insert(c);
                            }
                        }
                    }
                    *vis = next;
                }
                "Sort" => {
                    for s in body.as_array().cloned().unwrap_or_default() {
                        self.use_cid(&s["column"], vis, "Sort");
                    }
                }
                "Take" => {
                    for c in body["partition"].as_array().cloned().unwrap_or_default() {
                        self.use_cid(&c, vis, "Take.partition");
                    }
                    for s in body["sort"].as_array().cloned().unwrap_or_default() {
                        self.use_cid(&s["column"], vis, "Take.sort");
                    }
                    for b in ["start", "end"] {
                        if let Some(e) = body["range"].get(b) {
                            if !e.is_null() {
                                self.uses_in_expr(e, vis, "Take.range");
                            }
                        }
                    }
                }
                "Join" => {
                    self.table_ref(&body["with"], vis, true);
                    self.uses_in_expr(&body["filter"], vis, "Join.filter");
                }
                "Append" => self.table_ref(&body, vis, false),
                "Loop" => {
                    // the body sees the ids of the enclosing pipeline; afterwards those stay visible
                    let mut inner = vis.clone();
                    let body = body.as_array().cloned().unwrap_or_default();
                    self.transforms(&body, &mut inner, false);
                    if !matches!(body.last().and_then(|t| t.as_object()).and_then(|o| o.keys().next().cloned()).as_deref(), Some("Select")) {
                        self.err("loop-body-does-not-end-with-select", "loop body".into());
                    }
                }
                other => self.err("unknown-transform", other.to_string()),
            }
        }
    }
    fn relation(&mut self, rel: &J) {
        let ncols = rel["columns"].as_array().map(|a| a.len()).unwrap_or(0);
        if let Some(p) = rel["kind"].get("Pipeline").and_then(|p| p.as_array()) {
            let mut vis = BTreeSet::new();
            self.transforms(p, &mut vis, true);
            match p.last().and_then(|t| t.get("Select")).and_then(|s| s.as_array()) {
                Some(sel) => {
                    if sel.len() != ncols {
                        self.err("select-arity-differs-from-declared-columns", format!("final Select has {} ids, relation declares {} columns", sel.len(), ncols));
                    }
                }
                None => self.err("pipeline-does-not-end-with-select", "last transform is not Select".into()),
            }
        }
    }
}

/// Check one RQ given as JSON; returns (key, message) per violated clause.
pub fn check_rq(rq: &J) -> Vec<(String, String)> {
    let first = walk_rq(rq, BTreeMap::new());
    let mut errs = walk_rq(rq, first.owner).errs;
    // cause predicate of a recorded finding: a declared table whose column list holds the same column twice
    // (`from u | join l=q (..)` with an `a` on both sides). Instantiating it drops the duplicate, and the ids
    // of the enclosing pipeline are redirected to the wrong / to no instance column.
    let dup_table = rq["tables"].as_array().map(|ts| {
        ts.iter().any(|t| {
            let cols: Vec<String> = t["relation"]["columns"].as_array().map(|a| a.iter().map(|c| c.to_string()).collect()).unwrap_or_default();
            let set: BTreeSet<&String> = cols.iter().collect();
            set.len() != cols.len()
        })
    });
    if dup_table == Some(true) {
        for (k, _) in errs.iter_mut() {
            if k.starts_with("cid-of-another-pipeline-used") {
                *k = "foreign-cid-after-instantiating-table-with-duplicate-column-names".into();
            }
        }
    }
    errs
}

fn walk_rq(rq: &J, owner_known: BTreeMap<i64, String>) -> Walk {
    let mut w = Walk { owner_known, ..Default::default() };
    let tables = rq["tables"].as_array().cloned().unwrap_or_default();
    let mut seen = BTreeSet::new();
    for t in &tables {
        let id = t["id"].as_i64().unwrap_or(-1);
        w.ctx = format!("table {id}");
        if !seen.insert(id) {
            w.err("duplicate-table-id", format!("table id {id} declared twice"));
        }
        w.relation(&t["relation"]);
        w.table_ids_before.insert(id);
    }
    w.ctx = "main relation".into();
    w.relation(&rq["relation"]);
    let dups: Vec<i64> = w.defs.iter().filter(|(_, n)| **n > 1).map(|(c, _)| *c).collect();
    for c in dups {
        w.ctx = "query".into();
        w.err("cid-defined-more-than-once", format!("column id {c} has {} definitions", w.defs[&c]));
    }
    w
}

const SEEDS: &[&str] = &[
    "from t | select {a,b} | loop (filter a < 3 | select {a = a + 1, b})",
    "from t | select {a,b} | loop (filter a < 3 | select {a = a + 1, b}) | append (from u | select {a, d})",
    "let q = (from t | select {a,b})\nfrom q | join l=q (==a) | join m=q (l.a == m.b)",
    "let q = (from t | select {a,b})\nlet w = (from q | filter a > 1)\nfrom w | append q | append w",
    "from t | group {a} (window rows:-1..1 (sort b | derive {s = sum b, r = rank b}))",
    "from t | sort b | window rolling:2 (derive s = sum a) | filter s > 1 | group a (take 1)",
    "from t | join (from u | group a (aggregate {m = max d})) (==a) | derive x = m + b | sort {-x} | take 2..3",
    "from s\"SELECT * FROM t\" | select {a, b} | filter a > 1",
    "from [{a=1,b=2},{a=3,b=4}] | join side:left (from [{a=1,d=5}]) (==a) | aggregate {n = count this}",
    "from t | remove (from u | select {a, d}) ",
    "from t | select {a, b} | intersect (from u | select {a, d})",
    "from t | derive {x = case [a > 1 => b, true => 0]} | group x (aggregate {c = count this}) | sort c",
    "from t | select {a, b} | derive {z = s\"COALESCE({a}, {b})\"} | filter z > 0",
    "from t | take 5 | derive x = a | take 3 | derive y = x + 1 | filter y > 2 | select {y}",
    "from t | group {a} (sort b | take 2) | group {a} (aggregate {s = sum b}) | join u (==a)",
    // joined sub-pipelines without an alias: the outer pipeline names the inner table
    "from t | join (from u | derive {d = d + 1}) (==a) | select {t.b, u.d}",
    "from t | join side:left (from u | derive {d = -d}) (==a) | filter u.d > 1",
    "from t | join (from u | filter d > 1) (==a) | select {u.a, u.d}",
    "from t | join (from u | sort d | take 3) (==a) | derive {x = u.d + t.b}",
    "from t | join (from u | derive {d2 = d + 1}) (==a) | select {t.a, u.d, u.d2}",
    "from t | join (from u | select {a, d = d + 1}) (==a) | select {t.a, u.d}",
    "from t | append (from u | derive {a = a + 1}) | select {a}",
    // named values used in two pipelines: every use is a column of its own pipeline
    "let cols = {p = 1, q = 2}\nfrom t | derive cols | join (from u | derive cols) true",
    "let k = 5\nfrom t | derive {x = k} | join (from u | derive {x = k, y = k}) (==a) | select {t.x, u.y}",
    "let twice = e -> {p = e, q = e}\nfrom t | select (twice a) | join (from u | select (twice d)) (p == u.p)",
    // a let-table with an unnamed column read from two relations (rejected today: "this table contains unnamed
    // columns"; if ever accepted, each reader needs columns of its own)
    "let t1 = (from u | select {a, u.d + 1})\nlet lo = (from t1 | filter a < 10)\nlet hi = (from t1 | filter a > 90)\nfrom lo | append hi",
    "let t1 = (from u | group a (aggregate {sum d}))\nlet lo = (from t1 | filter a < 10)\nlet hi = (from t1 | filter a > 90)\nfrom lo | join hi (==a)",
    "let t1 = (from u | select {a, d * 2})\nfrom t1 | append t1",
    "let t1 = (from u | select {a, d * 2})\nfrom t1 | join r=(from t1 | take 2) (==a)",
    // reported by seeding agents on the unchanged tree (rounds 6 and 7)
    "from t | join c=(from u | select !{d}) (t.a == c.a) | select {c.d}",
    "let f = func r <relation> -> (from r | join (from r | select {a}) (==a))\nfrom t | f",
    "from t | join u (t.a == (lag 1 u.a))",
    // a joined sub-pipeline that exposes the name `a` twice (recorded finding)
    "let q = (from t | select {a, b})\nfrom q | join u (==a) | join r=(from u | join l=q (u.d == l.b)) true",
    "let q = (from t | select {a, b})\nfrom t | join r=(from u | join l=q (u.d == l.b)) (t.a == r.d) | select {t.a, r.d, r.b}",
];

pub fn run(tier: Tier) -> i32 {
    let mut run = Run::new("C16", tier);
    let mk = |depth, letters| GenCfg {
        depth,
        sources: vec![SrcKind::OpenT, SrcKind::LetClosed, SrcKind::Literal, SrcKind::SubClosed, SrcKind::LetSorted],
        max_joins: 2,
        letters,
    };
    let cfgs = match tier {
        Tier::Quick => vec![mk(2, Letters::Core), mk(2, Letters::Naming), mk(3, Letters::Order)],
        Tier::Thorough => vec![mk(3, Letters::Core), mk(3, Letters::Naming), mk(4, Letters::Order)],
    };
    let (progs, st) = enumerate(&cfgs);
    let mut texts: Vec<(String, serde_json::Value)> =
        progs.iter().map(|(p, ch, ci)| (pr_program(p), json!({"driver":"AP","cfg":ci,"choices":ch}))).collect();
    for s in SEEDS {
        texts.push((s.to_string(), json!({"driver":"seed"})));
    }
    // inline pipelines joined / appended *inside* the pipeline of a group or window: the pipeline is pulled out into
    // a table of its own, nothing of the enclosing partition / frame / sort may be carried into it
    for outer in ["group {a} (§)", "group {b} (sort a | §)", "window rolling:2 (§)", "sort b | group {a} (window rows:-1..0 (§))"] {
        for inner in ["from u | take 2", "from u | sort d | take 1", "from u | group a (aggregate {d = max d})", "from u | aggregate {a = min a, d = max d}", "from u | select {a, d} | derive {r = rank d}", "from u | select {a, d}"] {
            for op in ["join r=(¤) (b == r.d)", "join side:left r=(¤) (a == r.a)", "join (¤) (b == d)"] {
                let body = op.replace('¤', inner);
                texts.push((format!("from t | select {{a, b}} | {}", outer.replace('§', &body)), json!({"driver":"inline-pipeline-inside-group"})));
                texts.push((format!("from t | select {{a, b}} | {} | select {{a, b}}", outer.replace('§', &format!("{body} | derive {{n = count this}}"))), json!({"driver":"inline-pipeline-inside-group"})));
            }
        }
    }
    // the window programs of C04 (partitions, sorts — also by computed keys —, frames, placements)
    for s in crate::c04::program_texts(tier) {
        texts.push((s, json!({"driver":"AP-window"})));
    }
    if let Ok(rd) = std::fs::read_dir(format!("{}/prqlc/prqlc/tests/integration/queries", crate::report::repo_root())) {
        let mut files: Vec<_> = rd.filter_map(|e| e.ok()).map(|e| e.path()).filter(|p| p.extension().map(|x| x == "prql").unwrap_or(false)).collect();
        files.sort();
        for f in files {
            if let Ok(t) = std::fs::read_to_string(&f) {
                texts.push((t, json!({"driver":"repo-query","file": f.display().to_string()})));
            }
        }
    }
    struct Out {
        accepted: bool,
        errs: Vec<(String, String)>,
        sig: u64,
        ntransforms: usize,
    }
    let outs = par_map(&texts, || (), |_, (text, _)| {
        let r = guard(|| prqlc::prql_to_pl(text).and_then(prqlc::pl_to_rq));
        match r {
            Ok(Ok(rq)) => {
                let js = prqlc::json::from_rq(&rq).unwrap_or_default();
                let v: J = serde_json::from_str(&js).unwrap_or(J::Null);
                let errs = check_rq(&v);
                // shape signature: sequence of transform names of all pipelines
                let mut sig = String::new();
                let mut n = 0;
                fn names(v: &J, out: &mut String, n: &mut usize) {
                    if let Some(p) = v["kind"].get("Pipeline").and_then(|p| p.as_array()) {
                        for t in p {
                            if let Some(k) = t.as_object().and_then(|o| o.keys().next()) {
                                out.push_str(k);
                                out.push(' ');
                                *n += 1;
                            }
                        }
                        out.push('|');
                    }
                }
                for t in v["tables"].as_array().cloned().unwrap_or_default() {
                    names(&t["relation"], &mut sig, &mut n);
                }
                names(&v["relation"], &mut sig, &mut n);
                Out { accepted: true, errs, sig: fnv(&sig), ntransforms: n }
            }
            _ => Out { accepted: false, errs: vec![], sig: 0, ntransforms: 0 },
        }
    });
    for ((text, meta), o) in texts.iter().zip(&outs) {
        run.count("programs", 1);
        if !o.accepted {
            run.count("not_accepted_by_resolver", 1);
            continue;
        }
        run.validated += 1;
        run.transitions += o.ntransforms as u64;
        run.observe(o.sig);
        for (k, m) in &o.errs {
            // cause predicates over the program text (recorded findings; each names its ingredient)
            let flat = text.replace('\n', " ");
            let k = &(if k.starts_with("cid-of-another-pipeline-used:Select") && flat.contains("join") && flat.split("join").skip(1).any(|j| j.trim_start().contains("select !{")) {
                "excluded-column-reachable-through-the-alias-of-the-joined-pipeline".to_string()
            } else if k == "cid-not-visible" && m.contains("used in Select") && {
                // an exclusion over a relation known only through its wildcard, and later a second exclusion (written,
                // or the implicit exclusion of the keys by `group`): the second forgets the first, the column
                // excluded first is selected again
                match flat.find("select !{") {
                    // (some relation of the program is read through its wildcard — `from t`, `join u` —, which is what
                    // makes the second exclusion start from the wildcard again; programs over closed relations only do
                    // not show the violation at all, so the shape is not narrowed further)
                    Some(i) => flat[i + 9..].contains("select !{") || flat[i + 9..].contains("group {"),
                    None => false,
                }
            } {
                "second-exclusion-over-open-relation-forgets-the-first".to_string()
            } else if k == "cid-not-visible" && m.contains("used in Select") && flat.find("group {").map(|g| flat[g..].contains("select {")).unwrap_or(false) {
                // a `select` inside the pipeline of a group narrows the relation to its items; the group's own final
                // Select lists the key again, which the inner Select made invisible
                "group-key-selected-after-inner-select-dropped-it".to_string()
            } else if k.starts_with("cid-of-another-pipeline-used") && flat.contains("<relation>") {
                "relation-parameter-used-twice-in-a-function-body".to_string()
            } else if k == "cid-not-visible" && m.contains("Compute.expr") && flat.split("join").skip(1).any(|j| ["lag ", "lead ", "rank ", "row_number ", "sum ", "count ", "min ", "max ", "average ", "first ", "last "].iter().any(|f| j.split(')').next().map(|c| c.contains(&format!("({f}"))).unwrap_or(false) || j.contains(&format!("== ({f}")))) {
                "window-function-in-join-condition-computed-before-the-join".to_string()
            } else {
                k.clone()
            });
            let mut d = meta.clone();
            d["prql"] = json!(text);
            d["violated"] = json!(m);
            run.violate(Some(k.clone()), format!("{} :: {}", text.trim().replace('\n', " | "), m), d);
        }
        if run.samples.len() < 4 && o.ntransforms > 8 {
            run.sample(json!({"prql": text, "rq_transforms": o.ntransforms, "invariant": "held"}));
        }
    }
    run.states = texts.len() as u64;
    run.transitions += st.points;
    run.set("bounds", json!({"configs": cfgs.iter().map(|c| format!("{c:?}")).collect::<Vec<_>>(), "hand_seeds": SEEDS.len(), "repo_queries": "prqlc/prqlc/tests/integration/queries/*.prql"}));
    run.set("rule", json!("state = one program accepted by the resolver; the invariant (ids defined once, visible at use, tables declared earlier, From..Select shape, arity) is evaluated on its RQ JSON; distinct = distinct pipeline shapes (sequence of transform kinds)"));
    run.assume("the walker reads the serde JSON of RelationalQuery; Select and Aggregate cut visibility, Loop bodies see the enclosing ids, Append defines but does not expose the bottom ids");
    run.finish()
}

pub fn replay(v: &J) -> i32 {
    let text = v["prql"].as_str().unwrap_or("");
    match prqlc::prql_to_pl(text).and_then(prqlc::pl_to_rq) {
        Ok(rq) => {
            let js: J = serde_json::from_str(&prqlc::json::from_rq(&rq).unwrap()).unwrap();
            let errs = check_rq(&js);
            for (k, m) in &errs {
                println!("FAIL [{k}] {m}");
            }
            if errs.is_empty() {
                println!("OK");
                0
            } else {
                1
            }
        }
        Err(e) => {
            println!("not accepted: {e}");
            0
        }
    }
}
