//! C10 — ill-scoped programs are rejected, never compiled to something else.
//! EDIT driver (d = 1): every well-scoped program × every site × one scope-breaking edit.

use crate::apgen::{GenCfg, Letters, SrcKind};
use crate::iso::guard;
use crate::model::*;
use crate::relcheck::err_text;
use crate::relrun::enumerate;
use crate::report::{fnv, par_map, Run, Tier};
use serde_json::json;
use std::collections::BTreeSet;

#[derive(Clone, Debug)]
pub struct Edit {
    pub kind: &'static str,
    pub text: String,
    pub what: String,
}

fn head(prog: &Program, upto: usize) -> (String, Frame, Vec<Frame>) {
    // program text with only the first `upto` steps of main, the frame there, and all frames so far
    let m = prog.main.as_ref().unwrap();
    let mut p = prog.clone();
    p.main = Some(Pipeline { src: m.src.clone(), steps: m.steps[..upto].to_vec() });
    let mut frames = vec![source_frame(&m.src, None, prog)];
    for s in &m.steps[..upto] {
        let f = step_frame(s, frames.last().unwrap(), prog);
        frames.push(f);
    }
    (pr_program(&p), frames.last().unwrap().clone(), frames)
}

fn names_ever(prog: &Program, frames: &[Frame]) -> BTreeSet<String> {
    let mut out = BTreeSet::new();
    for f in frames {
        for c in &f.cols {
            if let Some(n) = &c.name {
                out.insert(n.clone());
            }
        }
    }
    // columns of the base tables behind closed sources
    fn base(src: &Source, prog: &Program, out: &mut BTreeSet<String>) {
        match src {
            Source::Table(n) => out.extend(table_cols(n)),
            Source::Let(i) => base(&prog.lets[*i].1.src, prog, out),
            Source::Sub(p) => base(&p.src, prog, out),
            Source::Lit(names, _) => out.extend(names.iter().cloned()),
        }
    }
    base(&prog.main.as_ref().unwrap().src, prog, &mut out);
    out
}

pub fn edits(prog: &Program, tier: Tier) -> Vec<Edit> {
    let mut out = vec![];
    let m = prog.main.as_ref().unwrap();
    let n = m.steps.len();
    for j in 0..=n {
        let (text, f, frames) = head(prog, j);
        let closed = f.open.is_empty();
        if closed {
            // E1: a column that is not in the fully known frame
            let present: BTreeSet<String> = f.cols.iter().filter_map(|c| c.name.clone()).collect();
            // names that were shadowed (unnamed now) are still derivable under compiler-specific
            // rules: only names that are in no column of the frame and were never re-introduced
            let dropped: Vec<String> = names_ever(prog, &frames).into_iter().filter(|c| !present.contains(c)).take(2).collect();
            for c in &dropped {
                let mut uses = vec![format!("filter {c} > 1"), format!("derive {{zz = {c} + 1}}")];
                // positions whose value the compiler can decide without the operand: an arm of `case` behind a
                // constant condition, the operand a constant makes irrelevant — the reference is ill-scoped all the same
                uses.push(format!("derive {{zz = case [false => {c}, true => 1]}}"));
                uses.push(format!("derive {{zz = case [true => 1, true => {c} + 1]}}"));
                uses.push(format!("filter false && ({c} > 1)"));
                uses.push(format!("derive {{zz = 1 ?? {c}}}"));
                if tier == Tier::Thorough {
                    uses.push(format!("sort {{{c}}}"));
                    uses.push(format!("select {{{c}}}"));
                    uses.push(format!("aggregate {{zz = sum {c}}}"));
                    uses.push(format!("group {{{c}}} (aggregate {{zz = count this}})"));
                }
                for u in uses {
                    out.push(Edit { kind: "E1-dropped-column", text: format!("{text}{u}\n"), what: format!("`{c}` is not in the fully known frame after step {j}") });
                }
                // input-qualified
                for inp in &f.inputs {
                    if tier == Tier::Thorough || inp == &f.inputs[0] {
                        out.push(Edit {
                            kind: "E1-dropped-column-qualified",
                            text: format!("{text}filter {}.{c} > 1\n", pr_ident(inp)),
                            what: format!("`{inp}.{c}` is not in the fully known frame after step {j}"),
                        });
                    }
                }
            }
        }
        // E1n: names that never were columns but exist somewhere in the resolver's tables while the transform is
        // being resolved — the field names of a range (`start`, `end`), the alias inside a tuple argument of an
        // earlier call, the parameter of a user function, an alias defined later in the same tuple, a column
        // local to an inner pipeline
        if closed {
            if let Some(c) = f.referencable().first().and_then(|&i| f.refname(i)) {
                let bare_taken = |n: &str| f.cols.iter().any(|x| x.name.as_deref() == Some(n)) || names_ever(prog, &frames).contains(n);
                let mut fam: Vec<(String, String, &str)> = vec![];
                for leaked in ["start", "end"] {
                    if bare_taken(leaked) {
                        continue;
                    }
                    fam.push((String::new(), format!("derive {{zp = ({c} | in 1..5), zq = {leaked}}}"), "a field name of the range in the sibling expression"));
                    fam.push((String::new(), format!("filter ({c} | in 1..5) && {leaked} > 0"), "a field name of the range earlier in the same expression"));
                    if tier == Tier::Thorough {
                        fam.push((String::new(), format!("select {{zp = ({c} | in 1..5), zq = {leaked}}}"), "a field name of the range in the sibling expression"));
                        fam.push((String::new(), format!("sort {{({c} | in 1..5), {leaked}}}"), "a field name of the range in the sibling sort key"));
                        fam.push((String::new(), format!("aggregate {{zp = max ({c} | in 1..5), zq = sum {leaked}}}"), "a field name of the range in the sibling aggregate"));
                    }
                }
                fam.push(("let ftup = tup -> 1\n".into(), format!("derive {{zp = (ftup {{zy = {c} + 1}}), zq = zy}}"), "the alias inside a tuple argument of the sibling call"));
                fam.push(("let fpar = px -> px + 1\n".into(), format!("derive {{zp = fpar {c}, zq = px}}"), "the parameter name of a user function called in the sibling expression"));
                fam.push((String::new(), format!("derive {{zq = zp2 + 1, zp2 = {c}}}"), "an alias defined later in the same tuple"));
                fam.push((String::new(), format!("group {{{c}}} (derive {{ztmp = 1}} | aggregate {{zs = sum ztmp}}) | filter ztmp > 0"), "a column local to the inner pipeline of group"));
                for (defs, u, what) in fam {
                    out.push(Edit { kind: "E1n-never-a-column", text: format!("{defs}{text}{u}\n"), what: format!("{what} is not a column of the fully known frame after step {j}") });
                }
                // E1d: names of declarations that are not columns — a module, a let-bound relation, the joined side
                if j == n {
                    let decls: Vec<(String, String, &str)> = vec![
                        (String::new(), "sort std".into(), "the module `std`"),
                        (String::new(), "derive {zq = std.math}".into(), "the module `std.math`"),
                        (String::new(), "derive {zq = that}".into(), "`that` outside a join"),
                        ("let zrel = (from u)\n".into(), "select {zq = zrel}".into(), "a let-bound relation used as a value"),
                        ("module zmod { let zk = 1 }\n".into(), "derive {zq = zmod}".into(), "a user module"),
                    ];
                    for (defs, u, what) in decls {
                        let kind = if what.starts_with("`that`") { "E1d-that-outside-a-join" } else if what.starts_with("a let-bound relation") { "E1d-relation-name-as-value" } else { "E1d-module-name-as-value" };
                        out.push(Edit { kind, text: format!("{defs}{text}{u}\n"), what: format!("{what} is not a column of the fully known frame") });
                    }
                }
            }
        }
        // E2: bare name matching columns of two fully known relations, directly after the join
        if closed && j > 0 && matches!(m.steps[j - 1], Step::Join { .. }) {
            let mut seen: BTreeSet<&str> = BTreeSet::new();
            for (i, c) in f.cols.iter().enumerate() {
                let Some(nm) = c.name.as_deref() else { continue };
                let dup = f.cols.iter().enumerate().any(|(k, d)| k != i && d.name.as_deref() == Some(nm) && d.input != c.input);
                if dup && seen.insert(nm) {
                    out.push(Edit { kind: "E2-ambiguous-bare-name", text: format!("{text}filter {nm} > 1\n"), what: format!("bare `{nm}` matches columns of two relations") });
                    out.push(Edit { kind: "E2-ambiguous-bare-name", text: format!("{text}select {{{nm}}}\n"), what: format!("bare `{nm}` matches columns of two relations") });
                }
            }
        }
        // E3 / E4 on the step that follows position j
        if j < n {
            let fj = &frames[j];
            let line = pr_step(&m.steps[j], fj, prog);
            let (name, rest) = line.split_once(' ').unwrap_or((&line, ""));
            let wrapped = match &m.steps[j] {
                Step::Filter(_) => format!("{name} ({rest})"),
                _ => line.clone(),
            };
            out.push(Edit { kind: "E3-surplus-argument", text: format!("{text}{wrapped} 5\n"), what: format!("one surplus positional argument to `{name}`") });
            out.push(Edit { kind: "E4-unknown-named-argument", text: format!("{text}{name} nope:1 {}\n", if matches!(&m.steps[j], Step::Filter(_)) { format!("({rest})") } else { rest.to_string() }), what: format!("unknown named argument to `{name}`") });
            // E5: scalar where a relation is required
            match &m.steps[j] {
                Step::Join { .. } => out.push(Edit { kind: "E5-scalar-as-relation", text: format!("{text}join 5 true\n"), what: "join with a number".into() }),
                Step::Append(_) => out.push(Edit { kind: "E5-scalar-as-relation", text: format!("{text}append 3\n"), what: "append a number".into() }),
                _ => {}
            }
        }
    }
    // user function with surplus / unknown arguments, at the end of the program
    let (text, f, _) = head(prog, n);
    if let Some(c) = f.referencable().first().and_then(|&i| f.refname(i)) {
        let def = "let ff = x -> x + 1\n";
        out.push(Edit { kind: "E3-surplus-argument", text: format!("{def}{text}derive {{zz = ff {c} 2}}\n"), what: "surplus argument to a user function".into() });
        out.push(Edit { kind: "E4-unknown-named-argument", text: format!("{def}{text}derive {{zz = ff nope:1 {c}}}\n"), what: "unknown named argument to a user function".into() });
        out.push(Edit { kind: "E3-surplus-argument", text: format!("{def}{text}derive {{zz = ({c} | ff 2)}}\n"), what: "surplus argument to a piped user function".into() });
    }
    out
}

/// recorded cause: the un-aliased right side of a join reads the table the left side reads (`from t | … | join (from t | …)`):
/// both relations are called `t`, their columns share one namespace and the later one shadows the earlier
fn same_named_relations_joined(text: &str) -> bool {
    let left = text.lines().find_map(|l| l.trim().strip_prefix("from ")).map(|r| r.split(|c: char| c == ' ' || c == '|').next().unwrap_or("").to_string());
    let Some(left) = left else { return false };
    text.lines().any(|l| {
        let l = l.trim();
        let Some(rest) = l.strip_prefix("join ") else { return false };
        let rest = rest.strip_prefix("side:left ").unwrap_or(rest);
        match rest.strip_prefix("(from ") {
            Some(r) => r.split(|c: char| c == ' ' || c == '|' || c == ')').next() == Some(left.as_str()),
            None => rest.split(' ').next() == Some(left.as_str()),
        }
    })
}

#[derive(Debug)]
pub enum Verdict {
    Rejected(String),
    Accepted(String),
    Panic(String, String),
}

pub fn verdict(text: &str) -> Verdict {
    match guard(|| prqlc::prql_to_pl(text).and_then(prqlc::pl_to_rq)) {
        Err(p) => Verdict::Panic(p.site, p.msg),
        Ok(Err(e)) => Verdict::Rejected(err_text(&e)),
        Ok(Ok(rq)) => {
            // the resolver let it through: compilation as a whole must still fail, for every dialect
            let mut last_err = String::new();
            for d in crate::relcheck::all_dialects() {
                let o = crate::relcheck::opts(d);
                let r = rq.clone();
                match guard(|| prqlc::rq_to_sql(r, &o)) {
                    Ok(Ok(sql)) => return Verdict::Accepted(format!("[{}] {sql}", crate::relcheck::dname(d))),
                    Ok(Err(e)) => last_err = format!("(SQL stage) {}", err_text(&e)),
                    Err(p) => return Verdict::Panic(p.site, p.msg),
                }
            }
            Verdict::Rejected(last_err)
        }
    }
}

pub fn run(tier: Tier) -> i32 {
    let mut run = Run::new("C10", tier);
    let cfgs = vec![GenCfg {
        depth: tier.pick(2, 3),
        sources: vec![SrcKind::OpenT, SrcKind::LetClosed, SrcKind::Literal, SrcKind::SubClosed],
        max_joins: 1,
        letters: tier.pick(Letters::Naming, Letters::Core),
    }];
    let (progs, st) = enumerate(&cfgs);
    // fixed relation/scalar confusions that need no context
    let fixed: Vec<Edit> = vec![
        Edit { kind: "E5-scalar-as-relation", text: "from 5\n".into(), what: "from a number".into() },
        Edit { kind: "E5-scalar-as-relation", text: "from t | join (1 + 1) true\n".into(), what: "join with an arithmetic expression".into() },
        Edit { kind: "E5-scalar-as-relation", text: "from t | select {a, b} | append 'x'\n".into(), what: "append a string".into() },
        Edit { kind: "E5-scalar-as-relation", text: "let k = 5\nfrom k\n".into(), what: "from a let-bound number".into() },
    ];
    // E2 across relation shapes: the left relation has a plain column `b`; the right relation — aliased or not,
    // a table, a let, an inline pipeline whose `b` is selected, renamed, derived or aggregated — has one too
    let mut fixed = fixed;
    {
        let lefts = ["from t | select {a, b}\n", "let q = (from t | select {a, b})\nfrom q\n", "from t | select {a, b} | filter a > 0\n", "from [{a = 1, b = 2}]\n"];
        let rights = [
            "(from u | select {a, b = d})",
            "(from u | select {a, d} | derive {b = d + 1})",
            "(from u | group a (aggregate {b = sum d}))",
            "(from u | select {a, d} | group a (aggregate {b = max d}) | sort a)",
            "(from [{a = 1, b = 5}])",
            "(from t | select {a, b} | take 3)",
            "(from u | select {a, b = d} | filter b > 0 | select {b, a})",
        ];
        let lets = ["let w = (from u | select {a, b = d})\n", "let w = (from u | group a (aggregate {b = count this}))\n"];
        let uses = ["filter b > 1", "select {b}", "sort {b}", "derive {zz = b + 1}", "aggregate {zz = sum b}", "group {b} (aggregate {zz = count this})", "select {a2 = t.a, b}"];
        for l in lefts {
            for side in ["", "side:left "] {
                for (ri, r) in rights.iter().enumerate() {
                    for alias in ["", "r="] {
                        for (ui, u) in uses.iter().enumerate() {
                            if ui == 6 && !l.starts_with("from t") {
                                continue;
                            }
                            let _ = ri;
                            fixed.push(Edit { kind: "E2-ambiguous-bare-name", text: format!("{l}join {side}{alias}{r} (==a)\n{u}\n"), what: "bare `b` matches a column of each joined relation".into() });
                        }
                    }
                }
                for w in lets {
                    for u in &uses[..4] {
                        fixed.push(Edit { kind: "E2-ambiguous-bare-name", text: format!("{w}{l}join {side}w (==a)\n{u}\n"), what: "bare `b` matches a column of each joined relation".into() });
                    }
                }
            }
        }
    }
    // E6: the ill-scoped pipeline is a declaration that the main pipeline does not use — by `let`, by `into`, in a
    // module, behind a second unused declaration, after the main pipeline. It is ill-scoped all the same.
    {
        let bad = [
            ("from t | select {a} | filter b > 1", "a column that is not in the fully known frame"),
            ("from t | select {a} | select {t.b}", "a qualified column that is not in the fully known frame"),
            ("from t | select {a, b} | join r=(from u | select {a, b = d}) (==a) | filter b > 1", "a bare name matching a column of each joined relation"),
            ("from t | take 1 2", "a surplus positional argument"),
            ("from t | sort nope:1 {a}", "an unknown named argument"),
            ("from t | join (1 + 1) true", "a scalar used as a relation"),
            ("from t | group a (aggregate {n = count this}) | filter b > 0", "a column that the aggregate dropped"),
        ];
        for (pipe, what) in bad {
            let forms = [
                format!("let dead = ({pipe})\nfrom u\n"),
                format!("{}\ninto dead\n\nfrom u\n", pipe.replace(" | ", "\n")),
                format!("module zm {{\n  let dead = ({pipe})\n}}\nfrom u\n"),
                format!("let dead = ({pipe})\nlet dead2 = (from dead | take 1)\nfrom u\n"),
                format!("from u\nlet dead = ({pipe})\n"),
                format!("let live = (from u | take 3)\nlet dead = ({pipe})\nfrom live\n"),
            ];
            for f in forms {
                fixed.push(Edit { kind: "E6-ill-scoped-declaration-not-used", text: f, what: format!("{what}, in a declaration the main pipeline does not use") });
            }
        }
    }
    // base programs must themselves be accepted (otherwise an edit proves nothing)
    let base_ok: Vec<bool> = par_map(&progs, || (), |_, (p, _, _)| matches!(verdict(&pr_program(p)), Verdict::Accepted(_)));
    let mut cases: Vec<(Edit, usize)> = vec![];
    for (i, (p, _, _)) in progs.iter().enumerate() {
        if !base_ok[i] {
            run.count("base_programs_not_accepted", 1);
            continue;
        }
        for e in edits(p, tier) {
            cases.push((e, i));
        }
    }
    for e in fixed {
        cases.push((e, usize::MAX));
    }
    // distinct edited sources only
    let mut seen = std::collections::HashSet::new();
    cases.retain(|(e, _)| seen.insert(e.text.clone()));
    let verdicts = par_map(&cases, || (), |_, (e, _)| verdict(&e.text));
    for ((e, pi), v) in cases.iter().zip(verdicts) {
        run.validated += 1;
        run.count(&format!("edits:{}", e.kind), 1);
        match v {
            Verdict::Rejected(msg) => {
                let norm: String = msg.chars().filter(|c| !c.is_ascii_digit()).take(40).collect();
                run.observe(fnv(&format!("{}{}", e.kind, norm)));
                if run.samples.len() < 8 && run.validated % 997 == 1 {
                    run.sample(json!({"edit": e.kind, "source": e.text, "rejected_with": msg}));
                }
            }
            Verdict::Accepted(sql) => {
                run.violate(
                    Some(if e.kind == "E2-ambiguous-bare-name" && same_named_relations_joined(&e.text) {
                        "accepted:E2-same-named-relations-joined".to_string()
                    } else if e.kind.starts_with("E6") {
                        // (one identity per kind of scope error: an unused declaration hides some of them today)
                        format!("accepted:{}:{}", e.kind, e.what.split(',').next().unwrap_or("").replace(' ', "-"))
                    } else {
                        format!("accepted:{}", e.kind)
                    }),
                    format!("{} ({}) :: {} :: compiled to {}", e.kind, e.what, e.text.trim().replace('\n', " | "), sql),
                    json!({"driver":"EDIT","edit": e.kind, "what": e.what, "source": e.text, "sql_generic": sql,
                           "base_choices": if *pi == usize::MAX { json!(null) } else { json!(progs[*pi].1) }}),
                );
            }
            Verdict::Panic(site, msg) => {
                run.violate(
                    // (file and message, not the line: lines move with every repair in that file)
                    Some(format!("panic@{}:{}", site.rsplit_once(':').map(|x| x.0).unwrap_or(&site), msg.chars().take(50).collect::<String>())),
                    format!("{} :: {} :: panic at {site}: {msg}", e.kind, e.text.trim().replace('\n', " | ")),
                    json!({"driver":"EDIT","edit": e.kind, "what": e.what, "source": e.text, "panic_site": site, "panic_msg": msg}),
                );
            }
        }
    }
    run.states = progs.len() as u64;
    run.transitions = st.points + cases.len() as u64;
    run.set("bounds", json!({"base_configs": cfgs.iter().map(|c| format!("{c:?}")).collect::<Vec<_>>(), "edits_per_program": "every site × {E1 dropped column (bare, qualified), E2 ambiguous bare name after join, E3 surplus positional, E4 unknown named, E5 relation/scalar}", "deviations": 1}));
    run.set("rule", json!("case = (accepted base program, site, one scope-breaking edit); validated = edited sources given to prql_to_pl + pl_to_rq; distinct = distinct (edit kind, error message class)"));
    run.assume("E1/E2 are generated only where the model's frame is fully known (no wildcard input left), which is where the documentation is unambiguous");
    run.finish()
}

pub fn replay(v: &serde_json::Value) -> i32 {
    let src = v["source"].as_str().unwrap_or("");
    match verdict(src) {
        Verdict::Rejected(m) => {
            println!("OK rejected: {m}");
            0
        }
        o => {
            println!("FAIL {o:?}");
            1
        }
    }
}
