//! Isolation: panic capture (site = file:line), counting allocator (deterministic cost meter).

use std::alloc::{GlobalAlloc, Layout, System};
use std::cell::{Cell, RefCell};
use std::panic::{catch_unwind, AssertUnwindSafe};
use std::sync::Once;

#[derive(Debug, Clone, serde::Serialize, serde::Deserialize, PartialEq, Eq, Hash)]
pub struct PanicInfo {
    /// file:line of the panic call site, path made relative to the repo
    pub site: String,
    pub msg: String,
}

thread_local! {
    static LAST_PANIC: RefCell<Option<PanicInfo>> = const { RefCell::new(None) };
    static IN_GUARD: Cell<u32> = const { Cell::new(0) };
    static ALLOC_BYTES: Cell<u64> = const { Cell::new(0) };
    static ALLOC_CALLS: Cell<u64> = const { Cell::new(0) };
}

static HOOK: Once = Once::new();

pub fn install_panic_hook() {
    HOOK.call_once(|| {
        std::panic::set_hook(Box::new(|info| {
            let site = info
                .location()
                .map(|l| {
                    let f = l.file();
                    // path relative to the repository root, wherever the checkout lives
                    let f = f.find("prqlc/prqlc").map(|i| &f[i..]).unwrap_or(f);
                    format!("{}:{}", f, l.line())
                })
                .unwrap_or_else(|| "?".into());
            let msg = if let Some(s) = info.payload().downcast_ref::<&str>() {
                s.to_string()
            } else if let Some(s) = info.payload().downcast_ref::<String>() {
                s.clone()
            } else {
                "<non-string panic>".into()
            };
            let mut head: String = msg.chars().take(160).collect();
            if head.len() < msg.len() {
                head.push('…');
            }
            // a panic outside `guard` is a bug of the harness itself: say so
            if IN_GUARD.with(|g| g.get()) == 0 {
                eprintln!("MACHINERY PANIC at {site}: {head}");
            }
            LAST_PANIC.with(|p| *p.borrow_mut() = Some(PanicInfo { site, msg: head }));
        }));
    });
}

/// Run `f`, turning a panic into `Err(PanicInfo)`.
pub fn guard<T>(f: impl FnOnce() -> T) -> Result<T, PanicInfo> {
    install_panic_hook();
    LAST_PANIC.with(|p| *p.borrow_mut() = None);
    IN_GUARD.with(|g| g.set(g.get() + 1));
    let r = catch_unwind(AssertUnwindSafe(f));
    IN_GUARD.with(|g| g.set(g.get() - 1));
    match r {
        Ok(v) => Ok(v),
        Err(_) => Err(LAST_PANIC
            .with(|p| p.borrow_mut().take())
            .unwrap_or(PanicInfo { site: "?".into(), msg: "?".into() })),
    }
}

pub struct CountingAlloc;

unsafe impl GlobalAlloc for CountingAlloc {
    unsafe fn alloc(&self, l: Layout) -> *mut u8 {
        let _ = ALLOC_BYTES.try_with(|b| b.set(b.get() + l.size() as u64));
        let _ = ALLOC_CALLS.try_with(|c| c.set(c.get() + 1));
        System.alloc(l)
    }
    unsafe fn dealloc(&self, p: *mut u8, l: Layout) {
        System.dealloc(p, l)
    }
    unsafe fn realloc(&self, p: *mut u8, l: Layout, n: usize) -> *mut u8 {
        let _ = ALLOC_BYTES.try_with(|b| b.set(b.get() + n as u64));
        let _ = ALLOC_CALLS.try_with(|c| c.set(c.get() + 1));
        System.realloc(p, l, n)
    }
}

/// (bytes allocated, number of allocations) by this thread so far.
pub fn alloc_meter() -> (u64, u64) {
    (ALLOC_BYTES.with(|b| b.get()), ALLOC_CALLS.with(|c| c.get()))
}

/// Run f and return its result plus the allocation cost (bytes, calls) it incurred on this thread.
pub fn metered<T>(f: impl FnOnce() -> T) -> (T, u64, u64) {
    let (b0, c0) = alloc_meter();
    let r = f();
    let (b1, c1) = alloc_meter();
    (r, b1 - b0, c1 - c0)
}
