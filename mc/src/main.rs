mod apgen;
mod c01;
mod c02;
mod c03;
mod c04;
mod c05;
mod binder;
mod c06;
mod c07;
mod c08;
mod c09;
mod c10;
mod c11;
#[cfg(prqlc_verif)]
mod c11s;
#[cfg(prqlc_verif)]
mod sch;
mod c12;
mod c13;
mod c14;
mod c15;
mod c16;
mod c17;
mod c18;
mod causes;
mod inst;
mod model;
mod relcheck;
mod relrun;
mod sqlite;
mod engine;
mod iso;
mod jsonutil;
mod report;
mod seeds;

use report::Tier;

#[global_allocator]
static ALLOC: iso::CountingAlloc = iso::CountingAlloc;

fn usage() -> ! {
    eprintln!("usage: mc <C01..C18> --tier quick|thorough\n       mc replay <path>");
    std::process::exit(2)
}

fn main() {
    iso::install_panic_hook();
    let args: Vec<String> = std::env::args().skip(1).collect();
    if args.is_empty() {
        usage();
    }
    if args[0] == "replay" {
        let path = args.get(1).unwrap_or_else(|| usage());
        let txt = std::fs::read_to_string(path).unwrap_or_else(|e| {
            eprintln!("cannot read {path}: {e}");
            std::process::exit(2)
        });
        let v: serde_json::Value = serde_json::from_str(&txt).expect("replay file is JSON");
        let code = match v["property"].as_str().unwrap_or("") {
            "C17" => c17::replay(&v),
            "C01" | "C03" | "C04" | "C05" | "C06" => relcheck::replay(&v),
            "C11" => c11::replay(&v),
            "C07" => c07::replay(&v),
            "C09" => c09::replay(&v),
            "C08" => c08::replay(&v),
            "C02" => c02::replay(&v),
            "C15" => c15::replay(&v),
            "C14" => c14::replay(&v),
            "C13" => c13::replay(&v),
            "C12" => c12::replay(&v),
            "C10" => c10::replay(&v),
            "C18" => c18::replay(&v),
            "C16" => c16::replay(&v),
            p => {
                eprintln!("no replay for property {p:?}");
                2
            }
        };
        std::process::exit(code);
    }
    if args[0] == "c11w" {
        std::process::exit(c11::worker(&args[1..]));
    }
    #[cfg(prqlc_verif)]
    if args[0] == "c11s" {
        std::process::exit(c11s::worker(&args[1..]));
    }
    if args[0] == "c12w" {
        std::process::exit(c12::worker(&args[1..]));
    }
    if args[0] == "sqlast" {
        c02::debug_stmt(&args[1]);
        return;
    }
    if args[0] == "c02dbg" {
        c02::debug_parse(&args[1], &args[2]);
        return;
    }
    if args[0] == "fmt" {
        // mc fmt <file.prql> : formatter output, twice (debug aid)
        let txt = std::fs::read_to_string(&args[1]).expect("read");
        match prqlc::prql_to_pl(&txt).and_then(|pl| prqlc::pl_to_prql(&pl)) {
            Ok(s1) => {
                println!("{s1}");
                match prqlc::prql_to_pl(&s1).and_then(|pl| prqlc::pl_to_prql(&pl)) {
                    Ok(s2) if s2 == s1 => println!("-- second pass: identical"),
                    Ok(s2) => println!("-- second pass differs:\n{s2}"),
                    Err(e) => println!("-- formatted output does not parse: {e}"),
                }
            }
            Err(e) => println!("ERR {e}"),
        }
        return;
    }
    if args[0] == "sqlof" {
        // mc sqlof <file> : one program per line (" | " for newlines) → "<program>\t<sqlite SQL or error>" (triage aid)
        let txt = std::fs::read_to_string(&args[1]).expect("read");
        for l in txt.lines() {
            let src = l.replace(" | ", "\n");
            let o = prqlc::Options::default().no_format().no_signature().with_target(prqlc::Target::Sql(Some(prqlc::sql::Dialect::SQLite)));
            let r = match iso::guard(|| prqlc::compile(&src, &o)) {
                Ok(Ok(s)) => s,
                Ok(Err(e)) => format!("ERR {}", e.inner.iter().map(|m| m.reason.clone()).collect::<Vec<_>>().join("; ")),
                Err(p) => format!("PANIC {} {}", p.site, p.msg),
            };
            println!("{l}\t{}", r.replace('\n', " "));
        }
        return;
    }
    if args[0] == "show" {
        // mc show <file.prql> : RQ JSON and SQL for the executable targets (debug aid)
        let txt = std::fs::read_to_string(&args[1]).expect("read");
        let (rq, outs) = relcheck::compile_staged(&txt, &relcheck::EXEC_DIALECTS);
        if let Some(rq) = rq {
            println!("{}", prqlc::json::from_rq(&rq).unwrap());
        }
        for (d, o) in outs {
            println!("-- {d}: {o:?}");
        }
        return;
    }
    let id = args[0].to_uppercase();
    let mut tier = match std::env::var("VERIF_TIER").as_deref() {
        Ok("thorough") => Tier::Thorough,
        _ => Tier::Quick,
    };
    let mut i = 1;
    while i < args.len() {
        match args[i].as_str() {
            "--tier" => {
                i += 1;
                tier = match args.get(i).map(|s| s.as_str()) {
                    Some("quick") => Tier::Quick,
                    Some("thorough") => Tier::Thorough,
                    _ => usage(),
                };
            }
            "quick" => tier = Tier::Quick,
            "thorough" => tier = Tier::Thorough,
            _ => usage(),
        }
        i += 1;
    }
    let code = match id.as_str() {
        "C01" => c01::run(tier),
        "C02" => c02::run(tier),
        "C03" => c03::run(tier),
        "C04" => c04::run(tier),
        "C05" => c05::run(tier),
        "C06" => c06::run(tier),
        "C07" => c07::run(tier),
        "C08" => c08::run(tier),
        "C09" => c09::run(tier),
        "C10" => c10::run(tier),
        "C11" => c11::run(tier),
        "C12" => c12::run(tier),
        "C13" => c13::run(tier),
        "C14" => c14::run(tier),
        "C15" => c15::run(tier),
        "C16" => c16::run(tier),
        "C17" => c17::run(tier),
        "C18" => c18::run(tier),
        _ => {
            eprintln!("unknown property {id}");
            2
        }
    };
    report::cleanup_worker_exe();
    std::process::exit(code);
}
