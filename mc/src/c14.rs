//! C14 — formatting preserves the program and is idempotent.
//! EX driver on the *syntax* tree: sources are produced by a naive always-parenthesise printer
//! over every node kind, embedded in every statement kind; plus all seed programs.

use crate::engine::{self, Ctx};
use crate::iso::guard;
use crate::jsonutil::strip_spans;
use crate::relcheck::err_text;
use crate::report::{fnv, par_map, Run, Tier};
use crate::seeds;
use serde_json::{json, Value as J};

pub const BINOPS: &[&str] = &["**", "*", "/", "//", "%", "+", "-", "==", "!=", "<", "<=", ">", ">=", "~=", "??", "&&", "||"];
const LEAVES: &[&str] = &[
    "a", "1", "-1", "1.5", "1.0", "1e3", "0x1f", "1_000", "'s'", "\"it's\"", "'say \"hi\"'", "null", "true", "t.a", "`my col`", "`select`",
    "@2020-01-01", "@10:30", "@2020-01-01T10:30:00Z", "2days", "$1", "r'\\n'", "f\"{a}x\"", "s\"F({a})\"", "f\"{{b}}\"", "'''tri'ple'''", "this", "a.b.c", "`A`", "`é`",
    // tokens that hold real line breaks, with blanks / a tab / a carriage return in front of the break and a line of
    // blanks only: text of interpolated strings is written as it is, so nothing may tidy their line ends
    "s\"SELECT 'a \nb' AS x\"", "f\"l1 \t\n  \nl3{a}\"", "s\"\"\"a\r\n b \n\"\"\"", "\"plain \n text\"",
];
const L2: &[&str] = &["a", "1", "-1", "1.5", "'x'", "null", "t.a", "`my col`"];
const LONG: &str = "a_very_long_identifier_number_one";

/// leaves of the compositional family
const CLEAVES: &[&str] = &["a", "1", "-a", "-1", "'x'", "a + b", "f a", "a.b", "$1", "y = a"];
/// one-hole contexts; the first CONTEXTS_CORE are the ones used at the outer level of quick depth-2 nestings
const CONTEXTS_CORE: usize = 14;
const CONTEXTS: &[&str] = &[
    "x + §", "§ + x", "x * §", "x ** §", "§ ** x", "x == §", "x && §", "x ?? §", "-§", "!§", "f §", "f x §", "(x | f §)", "(§ | f)",
    "x - §", "§ - x", "x / §", "§ * x", "§ == x", "§ && x", "§ ?? x", "x < §", "x || §", "x ~= §",
    "§..x", "x..§", "(x | in §..y)",
    "f n:§ x", "f § x", "g.h §", "(f § | g)", "(f x | g §)",
    "{§}", "{y = §}", "{x, §}", "[§]", "case [§ => x]", "case [x => §]", "case [x => y, true => §]",
    "x -> §", "f\"{§}\"", "s\"{§}\"", "+§", "==§",
];

fn par(s: &str) -> String {
    format!("({s})")
}

/// strings over a small alphabet, written as a double-quoted PRQL literal
fn encode_dq(s: &str) -> String {
    let mut o = String::from("\"");
    for c in s.chars() {
        match c {
            '\\' => o.push_str("\\\\"),
            '"' => o.push_str("\\\""),
            '\n' => o.push_str("\\n"),
            '\t' => o.push_str("\\t"),
            '\r' => o.push_str("\\r"),
            c => o.push(c),
        }
    }
    o.push('"');
    o
}

/// One expression source (naively parenthesised) per execution.
fn gen_expr(c: &mut Ctx, tier: Tier) -> Option<String> {
    let fam = c.choose(16, "family");
    Some(match fam {
        0 => c.pick(LEAVES, "leaf").to_string(),
        1 => {
            // binary over leaves
            let op = c.pick(BINOPS, "op");
            let l = c.pick(L2, "l");
            let r = c.pick(L2, "r");
            format!("{} {op} {}", par(l), par(r))
        }
        2 => {
            // nesting: (parent, child, side) triples
            let p = c.pick(BINOPS, "parent");
            let ch = c.pick(BINOPS, "child");
            let inner = format!("a {ch} b");
            if c.flag("right") {
                format!("c {p} {}", par(&inner))
            } else {
                format!("{} {p} c", par(&inner))
            }
        }
        3 => {
            // unary / binary adjacency
            let u = *c.pick(&["-", "!", "+"], "unary");
            let op = c.pick(BINOPS, "op");
            match c.choose(4, "shape") {
                0 => format!("{u}{}", par(&format!("a {op} b"))),
                1 => format!("{} {op} b", par(&format!("{u}a"))),
                2 => format!("a {op} {}", par(&format!("{u}b"))),
                _ => format!("{u}{}", par(&format!("{u}a"))),
            }
        }
        4 => {
            // depth 3 operator nesting (thorough)
            if tier == Tier::Quick {
                return None;
            }
            let p = c.pick(BINOPS, "p");
            let q = c.pick(BINOPS, "q");
            let r = c.pick(BINOPS, "r");
            match c.choose(5, "shape") {
                0 => format!("{} {p} d", par(&format!("{} {q} c", par(&format!("a {r} b"))))),
                1 => format!("{} {p} d", par(&format!("a {q} {}", par(&format!("b {r} c"))))),
                2 => format!("a {p} {}", par(&format!("{} {q} d", par(&format!("b {r} c"))))),
                3 => format!("a {p} {}", par(&format!("b {q} {}", par(&format!("c {r} d"))))),
                _ => format!("{} {p} {}", par(&format!("a {q} b")), par(&format!("c {r} d"))),
            }
        }
        5 => {
            // ranges
            let b = &["a", "1", "(-1)", "(a + 1)", "(a | f)", "@2020-01-01", "1.5"];
            match c.choose(4, "shape") {
                0 => format!("{}..{}", c.pick(b, "lo"), c.pick(b, "hi")),
                1 => format!("..{}", c.pick(b, "hi")),
                2 => format!("{}..", c.pick(b, "lo")),
                _ => format!("(a | in {}..{})", c.pick(b, "lo"), c.pick(b, "hi")),
            }
        }
        6 => {
            // calls with positional and named arguments
            let f = *c.pick(&["f", "math.abs", "`my fn`", "std.math.round"], "fn");
            let named = *c.pick(&["", "x:1 ", "x:1 y:2 ", "x:1 y:2 z:3 ", "zeta:(a + 1) alpha:'s' "], "named");
            let args = *c.pick(&["a", "a b", "(a + 1) (-b)", "{a, b}", "[1, 2]", "(g a)", "-a", "(a | g)"], "args");
            format!("{f} {named}{args}")
        }
        7 => {
            // pipelines
            c.pick(&["(a | f)", "(a | f | g)", "(a | f 1 | g x:2)", "((a | f) | g)", "(a | (f | g))", "(from t | take 1)", "(a + 1 | f)", "(f a | g b)"], "pipe").to_string()
        }
        8 => {
            // tuples and arrays
            c.pick(
                &["{a, b}", "{x = a, y = b + 1}", "{a, {b, c}}", "{}", "[1, 2, 3]", "[]", "[{a = 1}, {a = 2}]", "{a,}", "{x = (a | f), `my col` = 1}", "{t.*}", "{a = {b = 1}}", "!{a, b}", "{-a, +b}", "{a.b, c.*}"],
                "tuple",
            )
            .to_string()
        }
        9 => {
            // case
            c.pick(&["case [a => 1]", "case [a > 1 => 'x', true => 'y']", "case [(a | f) => (b + 1), a == null => null]", "case []", "case [a => case [b => 1]]"], "case").to_string()
        }
        10 => {
            // lambdas
            c.pick(
                &["x -> x + 1", "func x -> x", "func x y -> x + y", "func x y:1 -> x + y", "func x <int> -> x", "func x <int> y:1 -> <int> x + y", "x -> y -> x + y", "func a <array> -> <int> a", "func x <text || int> -> x", "func -> 1"],
                "lambda",
            )
            .to_string()
        }
        11 => {
            // all strings of length <= 2 (quick) / 3 (thorough) over a quoting-relevant alphabet, several spellings
            let alpha = ['a', '\'', '"', '\\', '\n', '{', '}', 'é'];
            let n = c.choose(tier.pick(3, 4), "len");
            let mut s = String::new();
            for _ in 0..n {
                s.push(*c.pick(&alpha, "ch"));
            }
            let style = c.choose(3, "style");
            match style {
                0 => encode_dq(&s),
                1 => {
                    // as f-string constant part: braces doubled
                    let body = encode_dq(&s.replace('{', "{{").replace('}', "}}"));
                    format!("f{body}")
                }
                _ => {
                    let body = encode_dq(&s.replace('{', "{{").replace('}', "}}"));
                    format!("s{body}")
                }
            }
        }
        12 => {
            // identifiers needing backticks, in reference position
            let id = *c.pick(&["`my col`", "`select`", "`A`", "`1a`", "`é`", "`a.b`", "`a-b`", "`let`", "`from`", "`_x`", "`x y z`", "`null`", "`a\"b`"], "ident");
            match c.choose(4, "pos") {
                0 => id.to_string(),
                1 => format!("t.{id}"),
                2 => format!("{id}.a"),
                _ => format!("{{{id} = 1, x = {id}}}"),
            }
        }
        14 => {
            // compositional: one-hole contexts nested to depth 2 (quick) / 3 (thorough) around a leaf,
            // every hole filled with a parenthesised text unless it is an atom
            let depth = 1 + c.choose(tier.pick(2, 3), "depth");
            let mut s = c.pick(CLEAVES, "cleaf").to_string();
            for level in 0..depth {
                // the outermost level of the deepest nesting uses the reduced context list in the quick tier
                let ctxs: &[&str] = if (tier == Tier::Quick && depth == 2 && level == 1) || (depth == 3 && level == 2) { &CONTEXTS[..CONTEXTS_CORE] } else { CONTEXTS };
                let ctx = *c.pick(ctxs, "ctx");
                let atom = s.chars().all(|ch| ch.is_ascii_alphanumeric() || ch == '\'' || ch == '.');
                let fill = if atom { s.clone() } else { par(&s) };
                s = ctx.replace('§', &fill);
            }
            if depth == 3 {
                s.insert(0, '\u{1}');
            }
            s
        }
        15 => {
            // expressions whose last part sits at every column around the formatter's line widths (50, 75, 112):
            // a name of every length 1..=70 in front of a two-sided range, a call, a binary expression
            let k = 1 + c.choose(70, "name-length");
            let name = "c".repeat(k);
            match c.choose(6, "tail") {
                0 => format!("({name} | in @2015-01-01..@2020-12-31)"),
                1 => format!("({name} | in 1000000..2000000)"),
                2 => format!("({name} | in @2024-01-01T00:00:00..zz)"),
                3 => format!("{name} + 1000000 * 2000000"),
                4 => format!("f {name} x:1000000 2000000"),
                _ => format!("{{{name}, y = 1000000..2000000}}"),
            }
        }
        _ => {
            // long operands that force wrapping
            let l = LONG;
            match c.choose(6, "long") {
                0 => format!("{l} + {l} + {l} + {l} + {l}"),
                1 => format!("{{{l}, {l}, {l}, x = {l} + {l}}}"),
                2 => format!("f {l} {l} {l} {l}"),
                3 => format!("({l} | f {l} | g {l} {l} | h {l})"),
                4 => format!("case [{l} > {l} => {l}, {l} == {l} => {l} + {l}]"),
                _ => format!("[{l}, {l}, {l}, {l}]"),
            }
        }
    })
}

/// one embedded source per execution (shared with C15)
pub fn gen_source(c: &mut Ctx, tier: Tier) -> Option<String> {
    let e = gen_expr(c, tier)?;
    // the deepest compositional nestings go into two statement kinds only
    let deep = e.starts_with('\u{1}');
    let e = e.trim_start_matches('\u{1}').to_string();
    let emb = if deep { c.choose(2, "embedding") } else if tier == Tier::Thorough { c.choose(EMBEDDINGS.len(), "embedding") } else { c.choose(4, "embedding") };
    Some(EMBEDDINGS[emb].replace('§', &e))
}

const EMBEDDINGS: &[&str] = &[
    "let v = §",
    "from t | derive {v = §}",
    "from t | filter (§)",
    "from t | select {§}",
    "from t | sort {§}",
    "let f = func x -> §",
    "module m {\n  let v = §\n}",
    "@{note = 'x'}\nlet v = §",
    "from t | derive {v = §} | into w",
    "from t | group {a} (aggregate {v = §})",
    "prql version:\"0.13\" target:sql.generic\n\nfrom t | derive {v = §}",
    "from t | join side:left u (§)",
];

const STATEMENTS: &[&str] = &[
    "let x = 5",
    "let x <int> = 5",
    "type my_t = int",
    "type my_t = {a = int, b = text}",
    "type my_t = [int]",
    "type u = int || text",
    "module m {\n  module n {\n    let x = 1\n  }\n  let y = n.x\n}",
    "import m.x",
    "import y = m.x",
    "module m { let x = 1 }\nimport m.x\nfrom t | derive z = x",
    "@{a = 1, b = 'two'}\nlet x = 5",
    "prql version:\"0.13\" target:sql.sqlite\n\nfrom t",
    "prql target:sql.postgres\n\nfrom t | take 1",
    "from t\ninto x",
    "let `my var` = 5",
    "let `my tbl` = (from t)\nfrom `my tbl`",
    "from `my schema`.`my tbl`",
    "from t | select {`first name`, last = `last name`}",
    "#! doc comment\nlet x = 1",
    "from t # trailing comment\n# full line comment\nselect {a} # another",
    "from t\n\\ | select {a}",
    "let f = func x <int> y:2 -> <int> x + y\nfrom t | derive z = f a y:3",
    "let a = 1; let b = 2",
    "from t | take 1..10 | take ..5 | take 3..",
    "from t | window rows:-2..0 (derive s = sum a)",
    "from t | window range:-1..1 rolling:3 expanding:true (derive s = sum a)",
    "from t | sort {a, -b, +c}",
    "from t | filter a == null && b != null || !c",
    "from t | derive {x = 1.0, y = 2.50, z = 1e10, w = 5e-3, v = 1_000.5}",
    "from t | derive {x = 9223372036854775807, y = -9223372036854775808}",
    "from t | derive {d = @2020-01-01, ts = @2020-01-01T10:00:00+02:00, tm = @10:00:00.123}",
    "from t | derive {i = 5years + 3months - 2days}",
    "from t | select {a ?? b ?? c, (a ?? b) ?? c, a ?? (b ?? c)}",
    "from t | select {a ** b ** c, (a ** b) ** c, a ** (b ** c)}",
    "from t | select {a - b - c, a - (b - c), (a - b) - c, a / b / c, a / (b / c)}",
    "from t | select {-a ** b, (-a) ** b, -(a ** b)}",
    "from t | select {x = (f a).b}",
    "from t | loop (filter a < 3 | select {a = a + 1})",
    "from [{a = 1, b = 'x'}, {a = 2, b = null}]",
    "from (read_csv 'x.csv') | take 1",
    "let x = {a = 1, b = {c = 2}}",
    "let x = [1, 2, 3]",
    "from t | derive x = s\"a \\\" b\" | derive y = f\"a \\\" {b}\"",
    "from t | derive x = r\"a\\b\" | derive y = 'a\\\\b'",
    "from t | derive x = \"\\u{48}\\x41\"",
    // parameters: defaults that need parentheses, typed named parameters, parameter names needing backticks
    "let g = func x y:(f 1) -> x + y",
    "let g = func x y:(a + b) -> x + y",
    "let g = func x y:-1 -> x + y",
    "let g = func x y:(z -> z) -> x",
    "let g = func x y:{a = 1} -> x",
    "let g = func x y:[1, 2] -> x",
    "let g = func x y:(1..2) -> x",
    "let g = func x y:null -> x ?? y",
    "let f = func a<int>:5 b -> a + b",
    "let f = func a<int> b<text>:'x' -> <bool> a == b",
    "let f = func `my p` `q r`:1 -> `my p` + `q r`",
    "from t | derive z = (f `a b`:1 b)",
    "from t | derive z = (f `select`:1 b)",
    // parameters ($n) as operands where the next token could be read as part of them
    "from t | take ($1)..5",
    "from t | take 1..($2)",
    "from t | derive z = ($1).a",
    "from t | derive z = $1 + $2",
    // an alias inside an expression
    "from t | derive y = (x = a) + b",
    "from t | derive y = f (x = a)",
    "from t | select {y = (x = a)}",
    // format specifications in interpolations
    "from t | derive z = f\"{a:>10}\"",
    "from t | derive z = s\"{a:x}\"",
    "from t | derive z = f\"{a + b:.2}\"",
    // names with characters that are only sometimes allowed bare
    "let `c$d` = 1",
    "from t | derive `a$b` = 1",
    "from t | derive {`$a` = 1, `a-b` = 2, `1a` = 3, `a.b` = 4}",
    "from `a$b`",
    // tuple types with an unpacked rest, function types, array of tuples
    "type t = {a = int, ..b}",
    "type t = {..b}",
    "type t = func int text -> bool",
    "type t = [{a = int}]",
    "type t = {int, text}",
    // statements that are an aliased pipeline / an expression
    "x = (from a | select b)",
    "from t | select b\ninto `my x`",
    "let x = (from t)\nlet y = (from x | take 1)\nfrom y",
    // unary operators next to each other and next to ranges
    "from t | derive z = - -a",
    "from t | derive z = -(-a)",
    "from t | derive z = !(!a)",
    "from t | derive z = (-a)..(-b)",
    "from t | filter (a | in (-5)..(-1))",
    // case with nested case and a function in an arm
    "from t | derive z = case [a => case [b => 1, true => 2], true => (x -> x)]",
];

#[derive(Debug)]
pub struct Bad {
    pub key: String,
    pub why: String,
}

fn pl_json(pl: &prqlc::pr::ModuleDef) -> J {
    let mut v: J = serde_json::from_str(&prqlc::json::from_pl(pl).unwrap_or_default()).unwrap_or(J::Null);
    strip_spans(&mut v);
    fn strip_doc(v: &mut J) {
        match v {
            J::Object(m) => {
                m.remove("doc_comment");
                m.values_mut().for_each(strip_doc);
            }
            J::Array(a) => a.iter_mut().for_each(strip_doc),
            _ => {}
        }
    }
    strip_doc(&mut v);
    v
}

fn first_diff(a: &J, b: &J, path: &mut String) -> Option<String> {
    match (a, b) {
        (J::Object(x), J::Object(y)) => {
            for (k, v) in x {
                match y.get(k) {
                    None => return Some(format!("{path}/{k}: missing after formatting (was {})", v.to_string().chars().take(120).collect::<String>())),
                    Some(w) => {
                        let l = path.len();
                        path.push('/');
                        path.push_str(k);
                        if let Some(d) = first_diff(v, w, path) {
                            return Some(d);
                        }
                        path.truncate(l);
                    }
                }
            }
            for k in y.keys() {
                if !x.contains_key(k) {
                    return Some(format!("{path}/{k}: appears after formatting"));
                }
            }
            None
        }
        (J::Array(x), J::Array(y)) => {
            if x.len() != y.len() {
                return Some(format!("{path}: {} elements before, {} after", x.len(), y.len()));
            }
            for (i, (v, w)) in x.iter().zip(y).enumerate() {
                let l = path.len();
                path.push_str(&format!("/{i}"));
                if let Some(d) = first_diff(v, w, path) {
                    return Some(d);
                }
                path.truncate(l);
            }
            None
        }
        _ => {
            if a == b {
                None
            } else {
                Some(format!("{path}: {} became {}", a.to_string().chars().take(100).collect::<String>(), b.to_string().chars().take(100).collect::<String>()))
            }
        }
    }
}

/// None: the source does not parse (not in the property's domain). Some(list of failed clauses).
pub fn check_source(s0: &str) -> Option<Vec<Bad>> {
    let p0 = match guard(|| prqlc::prql_to_pl(s0)) {
        Ok(Ok(p)) => p,
        _ => return None,
    };
    let mut bad = vec![];
    let s1 = match guard(|| prqlc::pl_to_prql(&p0)) {
        Err(p) => {
            bad.push(Bad { key: crate::c12::panic_key(&p), why: format!("formatter panics at {}: {}", p.site, p.msg) });
            return Some(bad);
        }
        Ok(Err(e)) => {
            bad.push(Bad { key: "formatter-error".into(), why: err_text(&e) });
            return Some(bad);
        }
        Ok(Ok(s)) => s,
    };
    let p1 = match guard(|| prqlc::prql_to_pl(&s1)) {
        Ok(Ok(p)) => p,
        Ok(Err(e)) => {
            bad.push(Bad { key: "formatted-output-does-not-parse".into(), why: format!("formatted {:?} does not parse: {}", s1, err_text(&e)) });
            return Some(bad);
        }
        Err(p) => {
            bad.push(Bad { key: crate::c12::panic_key(&p), why: format!("parser panics on formatted output: {}", p.msg) });
            return Some(bad);
        }
    };
    let (j0, j1) = (pl_json(&p0), pl_json(&p1));
    if j0 != j1 {
        let d = first_diff(&j0, &j1, &mut String::new()).unwrap_or_default();
        bad.push(Bad { key: "tree-changed-by-formatting".into(), why: format!("formatted to {:?}; {d}", s1) });
    }
    match guard(|| prqlc::pl_to_prql(&p1)) {
        Ok(Ok(s2)) => {
            if s2 != s1 {
                bad.push(Bad { key: "not-idempotent".into(), why: format!("first pass {:?}, second pass {:?}", s1, s2) });
            }
        }
        _ => bad.push(Bad { key: "second-format-failed".into(), why: "formatting the formatted output fails".into() }),
    }
    // where the source compiles, the formatted source must compile to the same SQL
    let o = prqlc::Options::default().no_format().no_signature().with_display(prqlc::DisplayOptions::Plain);
    if let Ok(Ok(sql0)) = guard(|| prqlc::compile(s0, &o)) {
        match guard(|| prqlc::compile(&s1, &o)) {
            Ok(Ok(sql1)) if sql1 == sql0 => {}
            Ok(Ok(sql1)) => bad.push(Bad { key: "sql-changed-by-formatting".into(), why: format!("{sql0} became {sql1} (formatted: {:?})", s1) }),
            Ok(Err(e)) => bad.push(Bad { key: "formatted-output-does-not-compile".into(), why: format!("formatted {:?}: {}", s1, err_text(&e)) }),
            Err(_) => {}
        }
    }
    Some(bad)
}

/// cause predicates of the known findings (closed list), from the observable only
fn cause(s0: &str, b: &Bad) -> String {
    if float_printed_as_int(b) {
        return "integral-float-printed-without-fraction".into();
    }
    // `func x -> x -> y -> x + y` parses as three statements, two of them parameterless functions; written
    // back one per paragraph they come back as two
    if (b.key == "tree-changed-by-formatting" || b.key == "not-idempotent") && b.why.contains("\\n\\nfunc -> ") {
        return "parameterless-function-statements-merge-when-reparsed".into();
    }
    b.key.clone() + &cause_suffix(s0, b)
}

fn cause_suffix(_s0: &str, _b: &Bad) -> String {
    String::new()
}

/// the one recorded finding: a float literal whose value is integral is printed without a
/// fraction (`1.0` → `1`, `1e3` → `1000`) and comes back as an integer. Recognised on the tree
/// difference itself: the first difference is a `Literal/Float` turning into a `Literal/Integer`
/// of the same value.
fn float_printed_as_int(b: &Bad) -> bool {
    match b.key.as_str() {
        "tree-changed-by-formatting" => b.why.contains("/Literal/Float: missing after formatting"),
        "sql-changed-by-formatting" => {
            // the SQL texts differ only by `.0` suffixes of numbers
            let Some((a, rest)) = b.why.split_once(" became ") else { return false };
            let z = rest.split(" (formatted:").next().unwrap_or("");
            let norm = |s: &str| {
                let mut out = String::new();
                let cs: Vec<char> = s.chars().collect();
                let mut i = 0;
                while i < cs.len() {
                    if cs[i] == '.' && i + 1 < cs.len() && cs[i + 1] == '0' && i > 0 && cs[i - 1].is_ascii_digit() && !(i + 2 < cs.len() && cs[i + 2].is_ascii_digit()) {
                        i += 2;
                        continue;
                    }
                    out.push(cs[i]);
                    i += 1;
                }
                out
            };
            a != z && norm(a) == norm(z)
        }
        _ => false,
    }
}

pub fn run(tier: Tier) -> i32 {
    let mut run = Run::new("C14", tier);
    // expression sources × embeddings
    let (cases, st) = engine::collect(0, |c| gen_source(c, tier));
    let mut sources: Vec<(String, J)> = cases.into_iter().map(|(s, ch)| (s, json!({"driver":"EX","choices": ch}))).collect();
    for s in STATEMENTS {
        sources.push((s.to_string(), json!({"driver":"statement"})));
    }
    for (n, s) in seeds::all_seeds() {
        sources.push((s, json!({"driver":"seed","seed": n})));
    }
    let mut seen = std::collections::HashSet::new();
    sources.retain(|(s, _)| seen.insert(s.clone()));
    let outs = par_map(&sources, || (), |_, (s, _)| check_source(s));
    for ((s, meta), o) in sources.iter().zip(outs) {
        run.count("sources", 1);
        let Some(bad) = o else {
            run.count("sources_that_do_not_parse (outside the domain)", 1);
            continue;
        };
        run.validated += 1;
        run.observe(fnv(&format!("{}{}", bad.len(), s.split_whitespace().take(3).collect::<String>())));
        if bad.is_empty() && run.samples.len() < 6 && s.len() > 60 {
            run.sample(json!({"source": s, "verdict": "tree equal, idempotent, same SQL"}));
        }
        for b in bad {
            let mut d = meta.clone();
            d["source"] = json!(s);
            d["detail"] = json!(b.why);
            run.violate(Some(cause(s, &b)), format!("{:?} :: {}", s, b.why), d);
        }
    }
    run.states = sources.len() as u64;
    run.transitions = st.points;
    run.set("bounds", json!({"expression_families": 16, "compositional_contexts": CONTEXTS.len(), "compositional_depth": tier.pick(2, 3), "binary_operators": BINOPS, "leaves": LEAVES.len(), "embeddings": tier.pick(4, EMBEDDINGS.len()), "statements": STATEMENTS.len(), "seeds": "integration queries + book examples + hand seeds", "string_alphabet": "a ' \" \\ LF { } é, length <= 2 (quick) / 3 (thorough)"}));
    run.set("rule", json!("source s0 (naively parenthesised) → p0 = parse(s0), s1 = format(p0), p1 = parse(s1): p1 must exist and equal p0 modulo spans and doc comments, format(p1) = s1, and compile(s1) = compile(s0) where s0 compiles; sources that do not parse are outside the domain"));
    run.assume("syntax trees are compared through their serde JSON with `span` and `doc_comment` removed");
    run.finish()
}

pub fn replay(v: &J) -> i32 {
    let s = v["source"].as_str().unwrap_or("");
    match check_source(s) {
        None => {
            println!("source does not parse");
            0
        }
        Some(b) if b.is_empty() => {
            println!("OK");
            0
        }
        Some(b) => {
            for x in b {
                println!("FAIL [{}] {}", x.key, x.why);
            }
            1
        }
    }
}
