//! C08 — literal values reach the database unchanged and cannot alter the statement.
//! STR driver: every string up to a length bound over an alphabet of SQL/PRQL-significant
//! characters, in every spelling; every short numeric spelling; the other literal kinds.

use crate::iso::guard;
use crate::relcheck::{all_dialects, dname, err_text, opts};
use crate::report::{fnv, par_map, Run, Tier};
use crate::sqlite::Db;
use prqlc::sql::Dialect;
use serde_json::{json, Value as J};

pub const SIGMA: &[char] = &['a', ' ', '\'', '"', '\\', '\n', '\r', '\t', '-', '/', '*', '#', ';', '{', '}', '%', 'é', '🐢', '\u{1}'];

fn esc_common(c: char, q: char, out: &mut String) {
    match c {
        '\\' => out.push_str("\\\\"),
        '\n' => out.push_str("\\n"),
        '\r' => out.push_str("\\r"),
        '\t' => out.push_str("\\t"),
        '\u{1}' => out.push_str("\\x01"),
        c if c == q => {
            out.push('\\');
            out.push(c)
        }
        c => out.push(c),
    }
}

/// every documented spelling that can hold the value `v`: (name, source text)
pub fn spellings(v: &str) -> Vec<(&'static str, String)> {
    let mut out = vec![];
    for (name, q) in [("single-quoted", '\''), ("double-quoted", '"')] {
        let mut s = String::new();
        s.push(q);
        v.chars().for_each(|c| esc_common(c, q, &mut s));
        s.push(q);
        out.push((name, s));
    }
    for (name, q) in [("triple-single", '\''), ("triple-double", '"')] {
        let q3: String = std::iter::repeat(q).take(3).collect();
        if !v.contains(q) || (!v.contains(&q3) && !v.starts_with(q) && !v.ends_with(q) && !v.contains(&format!("{q}{q}"))) {
            let mut s = q3.clone();
            // inside a triple-quoted string the quote character itself needs no escape
            v.chars().for_each(|c| if c == q { s.push(c) } else { esc_common(c, '\0', &mut s) });
            s.push_str(&q3);
            out.push((name, s));
        }
    }
    // control characters written as themselves (a multi-line string of a file with any line-ending
    // convention): only the backslash and the delimiting quote are escaped
    if v.contains(['\n', '\r', '\t', '\u{1}']) {
        for (name, q) in [("single-quoted-verbatim", '\''), ("double-quoted-verbatim", '"')] {
            let mut s = String::new();
            s.push(q);
            for c in v.chars() {
                match c {
                    '\\' => s.push_str("\\\\"),
                    c if c == q => {
                        s.push('\\');
                        s.push(c)
                    }
                    c => s.push(c),
                }
            }
            s.push(q);
            out.push((name, s));
        }
        if !v.contains('"') {
            out.push(("triple-double-verbatim", format!("\"\"\"{}\"\"\"", v.replace('\\', "\\\\"))));
        }
    }
    // raw strings hold everything except their quote character (and, conservatively, line breaks)
    for (name, q) in [("raw-single", '\''), ("raw-double", '"')] {
        if !v.contains(q) && !v.contains('\n') && !v.contains('\r') {
            out.push((name, format!("r{q}{v}{q}")));
        }
    }
    // every character as \u{…}
    out.push(("unicode-escapes", format!("\"{}\"", v.chars().map(|c| format!("\\u{{{:x}}}", c as u32)).collect::<String>())));
    if v.chars().all(|c| (c as u32) < 0x80) {
        out.push(("hex-escapes", format!("'{}'", v.chars().map(|c| format!("\\x{:02x}", c as u32)).collect::<String>())));
    }
    out
}

fn fstring_spelling(v: &str) -> String {
    let mut s = String::from("f\"");
    for c in v.chars() {
        match c {
            '{' => s.push_str("{{"),
            '}' => s.push_str("}}"),
            c => esc_common(c, '"', &mut s),
        }
    }
    s.push('"');
    s
}

/// the string value of `let x = <spelling>` as the parser sees it
fn parsed_value(spelling: &str) -> Result<String, String> {
    let src = format!("let x = {spelling}");
    match guard(|| prqlc::prql_to_pl(&src)) {
        Err(p) => Err(format!("panic at {}: {}", p.site, p.msg)),
        Ok(Err(e)) => Err(format!("rejected: {}", err_text(&e))),
        Ok(Ok(pl)) => {
            let js: J = serde_json::from_str(&prqlc::json::from_pl(&pl).map_err(|e| e.to_string())?).map_err(|e| e.to_string())?;
            let lit = &js["stmts"][0]["VarDef"]["value"]["Literal"];
            if let Some(s) = lit["String"].as_str().or(lit["RawString"].as_str()) {
                Ok(s.to_string())
            } else {
                Err(format!("not a string literal: {}", js["stmts"][0]["VarDef"]["value"]))
            }
        }
    }
}

fn nth_string(mut i: u64, len: usize) -> String {
    let mut s = String::new();
    for _ in 0..len {
        s.push(SIGMA[(i % SIGMA.len() as u64) as usize]);
        i /= SIGMA.len() as u64;
    }
    s
}

fn all_values(maxlen: usize) -> Vec<String> {
    let mut v = vec![];
    for len in 0..=maxlen {
        for i in 0..(SIGMA.len() as u64).pow(len as u32) {
            v.push(nth_string(i, len));
        }
    }
    v
}

fn batch_program(lits: &[String]) -> String {
    let items: Vec<String> = lits.iter().enumerate().map(|(i, l)| format!("v{i} = {l}")).collect();
    format!("from [{{z = 1}}]\nselect {{{}}}", items.join(", "))
}

fn compile(src: &str, d: Dialect, format: bool) -> Result<String, String> {
    let o = opts(d).with_format(format);
    match guard(|| prqlc::compile(src, &o)) {
        Ok(Ok(s)) => Ok(s),
        Ok(Err(e)) => Err(err_text(&e)),
        Err(p) => Err(format!("panic at {}: {}", p.site, p.msg)),
    }
}

#[derive(Debug)]
pub struct Bad {
    pub key: String,
    pub why: String,
    pub value: String,
    pub spelling: String,
}

/// Execute a batch of string literals (all denoting `values`) and compare what the engine returns.
fn exec_batch(db: &Db, values: &[String], lits: &[String], d: Dialect, format: bool, kind: &str) -> Vec<Bad> {
    let mut bad = vec![];
    let src = batch_program(lits);
    let one_by_one = |bad: &mut Vec<Bad>| {
        for (v, l) in values.iter().zip(lits) {
            let src = batch_program(std::slice::from_ref(l));
            match compile(&src, d, format) {
                Err(e) => bad.push(Bad { key: format!("literal-rejected:{kind}"), why: format!("[{} format={format}] {l} does not compile: {e}", dname(d)), value: v.clone(), spelling: l.clone() }),
                Ok(sql) => match db.query(&sql) {
                    Err(e) => bad.push(Bad { key: format!("statement-broken-by-literal:{}:format={format}", dname(d)), why: format!("[{} format={format}] {l} → {sql:?}: {e}", dname(d)), value: v.clone(), spelling: l.clone() }),
                    Ok((_, rows)) => {
                        let got = rows.first().and_then(|r| r.first()).cloned();
                        if got != Some(crate::model::V::Text(v.clone())) {
                            bad.push(Bad { key: format!("value-changed:{}:format={format}", dname(d)), why: format!("[{} format={format}] {l} denotes {v:?}, the database returns {:?} (SQL {sql:?})", dname(d), got.map(|g| g.show())), value: v.clone(), spelling: l.clone() });
                        }
                    }
                },
            }
        }
    };
    match compile(&src, d, format) {
        Err(_) => one_by_one(&mut bad),
        Ok(sql) => match db.query(&sql) {
            Err(_) => one_by_one(&mut bad),
            Ok((_, rows)) => {
                let row = rows.first().cloned().unwrap_or_default();
                if rows.len() != 1 || row.len() != values.len() || row.iter().zip(values).any(|(g, v)| *g != crate::model::V::Text(v.clone())) {
                    one_by_one(&mut bad);
                }
            }
        },
    }
    bad
}

fn sqlparser_dialect(d: Dialect) -> Box<dyn sqlparser::dialect::Dialect> {
    use sqlparser::dialect as sd;
    match d {
        Dialect::Ansi => Box::new(sd::AnsiDialect {}),
        Dialect::BigQuery => Box::new(sd::BigQueryDialect {}),
        Dialect::ClickHouse => Box::new(sd::ClickHouseDialect {}),
        Dialect::DuckDb => Box::new(sd::DuckDbDialect {}),
        Dialect::Generic => Box::new(sd::GenericDialect {}),
        Dialect::GlareDb | Dialect::Postgres => Box::new(sd::PostgreSqlDialect {}),
        Dialect::MsSql => Box::new(sd::MsSqlDialect {}),
        Dialect::MySql => Box::new(sd::MySqlDialect {}),
        Dialect::Redshift => Box::new(sd::RedshiftSqlDialect {}),
        Dialect::SQLite => Box::new(sd::SQLiteDialect {}),
        Dialect::Snowflake => Box::new(sd::SnowflakeDialect {}),
    }
}

/// token kinds (without whitespace) and the values of string tokens, under the dialect's own lexical rules
fn tokenise(sql: &str, d: Dialect) -> Result<(Vec<String>, Vec<String>), String> {
    use sqlparser::tokenizer::{Token, Tokenizer};
    let dial = sqlparser_dialect(d);
    let toks = Tokenizer::new(&*dial, sql).tokenize().map_err(|e| e.to_string())?;
    let mut kinds = vec![];
    let mut strings = vec![];
    for t in toks {
        match t {
            Token::Whitespace(sqlparser::tokenizer::Whitespace::SingleLineComment { .. }) | Token::Whitespace(sqlparser::tokenizer::Whitespace::MultiLineComment(_)) => kinds.push("COMMENT".to_string()),
            Token::Whitespace(_) => {}
            Token::SingleQuotedString(s) => {
                kinds.push("STR".into());
                strings.push(s)
            }
            Token::Word(w) => kinds.push(format!("W:{}", w.value.to_uppercase())),
            Token::Number(..) => kinds.push("NUM".into()),
            other => kinds.push(format!("{other}")),
        }
    }
    Ok((kinds, strings))
}

fn token_batch(values: &[String], d: Dialect) -> Vec<Bad> {
    let mut bad = vec![];
    let lits: Vec<String> = values.iter().map(|v| spellings(v)[1].1.clone()).collect();
    let benign: Vec<String> = values.iter().map(|_| "'a'".to_string()).collect();
    let check = |vals: &[String], lits: &[String], benign: &[String], bad: &mut Vec<Bad>| -> bool {
        let (Ok(sql), Ok(sql0)) = (compile(&batch_program(lits), d, false), compile(&batch_program(benign), d, false)) else { return false };
        let (Ok((k, s)), Ok((k0, _))) = (tokenise(&sql, d), tokenise(&sql0, d)) else {
            if vals.len() == 1 {
                bad.push(Bad { key: format!("statement-does-not-tokenise:{}", dname(d)), why: format!("[{}] {:?} → {sql:?} does not tokenise", dname(d), vals[0]), value: vals[0].clone(), spelling: lits[0].clone() });
                return true;
            }
            return false;
        };
        if k != k0 {
            if vals.len() == 1 {
                bad.push(Bad { key: format!("statement-structure-changed-by-literal:{}", dname(d)), why: format!("[{}] {:?} → {sql:?}: token kinds {:?}, with a benign literal {:?}", dname(d), vals[0], k, k0), value: vals[0].clone(), spelling: lits[0].clone() });
                return true;
            }
            return false;
        }
        if s.len() != vals.len() || s.iter().zip(vals).any(|(a, b)| a != b) {
            if vals.len() == 1 {
                bad.push(Bad { key: format!("string-token-value-differs:{}", dname(d)), why: format!("[{}] {:?} → {sql:?}: under this dialect's lexical rules the literal reads {:?}", dname(d), vals[0], s), value: vals[0].clone(), spelling: lits[0].clone() });
                return true;
            }
            return false;
        }
        true
    };
    if !check(values, &lits, &benign, &mut bad) {
        for i in 0..values.len() {
            check(&values[i..=i], &lits[i..=i], &benign[i..=i], &mut bad);
        }
    }
    bad
}

// ------------------------------------------------------------------ numbers

/// documented numeric syntax → value (None: not a number literal by the documentation)
fn decode_number(s: &str) -> Option<Result<i64, f64>> {
    let t = s;
    let digits = |x: &str, radix: u32| -> Option<i64> {
        if x.is_empty() || x.starts_with('_') || x.ends_with('_') {
            return None;
        }
        i64::from_str_radix(&x.replace('_', ""), radix).ok()
    };
    if let Some(h) = t.strip_prefix("0x") {
        return digits(h, 16).map(Ok);
    }
    if let Some(o) = t.strip_prefix("0o") {
        return digits(o, 8).map(Ok);
    }
    if let Some(b) = t.strip_prefix("0b") {
        return digits(b, 2).map(Ok);
    }
    if !t.chars().next()?.is_ascii_digit() {
        return None;
    }
    if t.chars().all(|c| c.is_ascii_digit() || c == '_') {
        if t.ends_with('_') || t.contains("__") {
            return None;
        }
        return t.replace('_', "").parse::<i64>().ok().map(Ok);
    }
    // float: digits [. digits] [e[+-]digits]
    let clean = t.replace('_', "");
    let ok_shape = {
        let (mant, exp) = match clean.split_once(|c| c == 'e' || c == 'E') {
            Some((m, e)) => (m, Some(e)),
            None => (clean.as_str(), None),
        };
        let mant_ok = match mant.split_once('.') {
            Some((a, b)) => !a.is_empty() && !b.is_empty() && a.chars().all(|c| c.is_ascii_digit()) && b.chars().all(|c| c.is_ascii_digit()),
            None => !mant.is_empty() && mant.chars().all(|c| c.is_ascii_digit()),
        };
        let exp_ok = exp.map(|e| {
            let e = e.strip_prefix(['+', '-']).unwrap_or(e);
            !e.is_empty() && e.chars().all(|c| c.is_ascii_digit())
        });
        mant_ok && exp_ok.unwrap_or(true) && (mant.contains('.') || exp.is_some())
    };
    if !ok_shape || t.contains("_.") || t.contains("._") || t.ends_with('_') {
        return None;
    }
    clean.parse::<f64>().ok().map(Err)
}

/// the mathematical value of an integer spelling that is too large for i64 (prefixed or decimal)
fn decode_big(s: &str) -> Option<u128> {
    let (body, radix) = if let Some(h) = s.strip_prefix("0x") { (h, 16) } else if let Some(o) = s.strip_prefix("0o") { (o, 8) } else if let Some(b) = s.strip_prefix("0b") { (b, 2) } else { (s, 10) };
    if body.is_empty() || body.starts_with('_') || body.ends_with('_') || !body.chars().all(|c| c.is_digit(radix) || c == '_') {
        return None;
    }
    u128::from_str_radix(&body.replace('_', ""), radix).ok().filter(|v| *v > i64::MAX as u128)
}

/// integer spellings around every width limit: for each base, digit counts up to one past 64 bits, with the
/// top bit / all bits / all-but-top bits set
fn boundary_integer_spellings() -> Vec<String> {
    let mut v = vec![];
    for (pre, maxd, top, full) in [("0x", 17usize, '8', 'f'), ("0o", 23, '4', '7'), ("0b", 65, '1', '1')] {
        for k in 1..=maxd {
            v.push(format!("{pre}{}", std::iter::repeat(full).take(k).collect::<String>()));
            v.push(format!("{pre}{top}{}", "0".repeat(k - 1)));
            v.push(format!("{pre}1{}", "0".repeat(k - 1)));
            if pre == "0x" {
                v.push(format!("{pre}7{}", "f".repeat(k - 1)));
                v.push(format!("{pre}_{}", "f".repeat(k)));
            }
        }
    }
    for d in ["9223372036854775806", "9223372036854775809", "18446744073709551615", "18446744073709551616", "99999999999999999999", "340282366920938463463374607431768211455"] {
        v.push(d.to_string());
    }
    v.sort();
    v.dedup();
    v
}

const NUM_SIGMA: &[char] = &['0', '1', '9', '_', '.', 'e', 'E', '+', '-', 'x', 'b', 'o', 'f'];

fn number_spellings(maxlen: usize) -> Vec<String> {
    let mut v = vec![];
    for len in 1..=maxlen {
        for mut i in 0..(NUM_SIGMA.len() as u64).pow(len as u32) {
            let mut s = String::new();
            for _ in 0..len {
                s.push(NUM_SIGMA[(i % NUM_SIGMA.len() as u64) as usize]);
                i /= NUM_SIGMA.len() as u64;
            }
            // only spellings the lexer takes as ONE number token
            if let Ok(t) = prqlc_parser::lexer::lex_source(&s) {
                if t.0.len() == 2 && t.0[1].span == (0..s.len()) {
                    if let prqlc_parser::lexer::lr::TokenKind::Literal(prqlc_parser::lexer::lr::Literal::Integer(_) | prqlc_parser::lexer::lr::Literal::Float(_)) = &t.0[1].kind {
                        v.push(s);
                    }
                }
            }
        }
    }
    v.extend(boundary_integer_spellings());
    for b in ["9223372036854775807", "9223372036854775808", "1e308", "1.7976931348623157e308", "1e-320", "5e-324", "0.1", "0.30000000000000004", "123456789.123456789", "0x7fffffffffff", "0b111", "0o777", "1_000_000", "1_0.0_1", "1e+2", "1E2"] {
        v.push(b.to_string());
    }
    v
}

fn check_numbers(db: &Db, spellings: &[String], d: Dialect, format: bool) -> Vec<Bad> {
    let mut bad = vec![];
    let src = batch_program(spellings);
    let single = |s: &String, bad: &mut Vec<Bad>| {
        let want = decode_number(s);
        match compile(&batch_program(std::slice::from_ref(s)), d, format) {
            Err(e) => {
                // long prefixed literals run into the lexer's digit limits (12 hex / 12 octal / 32 binary digits) and
                // are rejected as a whole: no value reaches the database, which the property allows
                let long_prefixed = s.len() > 12 && (s.starts_with("0x") || s.starts_with("0o") || s.starts_with("0b"));
                // a float spelling beyond the f64 range denotes no representable value: rejection is the answer
                let beyond_f64 = matches!(want, Some(Err(f)) if !f.is_finite());
                if want.is_some() && !long_prefixed && !beyond_f64 {
                    bad.push(Bad { key: "documented-number-rejected".into(), why: format!("{s} does not compile: {e}"), value: s.clone(), spelling: s.clone() });
                }
            }
            Ok(sql) => match db.query(&sql) {
                Err(e) => {
                    // cause predicate of the recorded finding: the spelling exceeds the f64 range
                    let key = if matches!(want, Some(Err(f)) if f.is_infinite()) && sql.contains("inf") { "out-of-range-float-emitted-as-inf".to_string() } else { format!("statement-broken-by-number:{}", dname(d)) };
                    bad.push(Bad { key, why: format!("[{} format={format}] {s} → {sql:?}: {e}", dname(d)), value: s.clone(), spelling: s.clone() })
                }
                Ok((_, rows)) => {
                    let got = rows.first().and_then(|r| r.first()).cloned().unwrap_or(crate::model::V::Null);
                    let ok = match (&want, &got) {
                        (Some(Ok(i)), crate::model::V::Int(g)) => i == g,
                        (Some(Err(f)), crate::model::V::Real(g)) => f == g || (f - g).abs() <= f.abs() * 1e-15,
                        // an integer too large for i64: an error is fine, the same value as a float is fine, another
                        // integer is not
                        (None, crate::model::V::Int(_)) if decode_big(s).is_some() => false,
                        (None, crate::model::V::Real(g)) if decode_big(s).is_some() => {
                            let b = decode_big(s).unwrap() as f64;
                            (b - g).abs() <= b * 1e-15
                        }
                        // the documentation does not define this spelling although the lexer takes it: not decided
                        (None, _) => true,
                        _ => false,
                    };
                    if !ok {
                        bad.push(Bad { key: format!("number-value-or-type-changed:{}", dname(d)), why: format!("[{} format={format}] {s} denotes {}, the database returns {} (SQL {sql:?})", dname(d), match (&want, decode_big(s)) { (None, Some(b)) => format!("{b} (beyond i64)"), _ => format!("{want:?}") }, got.show()), value: s.clone(), spelling: s.clone() });
                    }
                }
            },
        }
    };
    let all_ok = match compile(&src, d, format) {
        Err(_) => false,
        Ok(sql) => match db.query(&sql) {
            Err(_) => false,
            Ok((_, rows)) => {
                let row = rows.first().cloned().unwrap_or_default();
                row.len() == spellings.len()
                    && row.iter().zip(spellings).all(|(g, s)| match (decode_number(s), g) {
                        (Some(Ok(i)), crate::model::V::Int(x)) => i == *x,
                        (Some(Err(f)), crate::model::V::Real(x)) => f == *x,
                        (None, _) if decode_big(s).is_some() => false,
                        (None, _) => true,
                        _ => false,
                    })
            }
        },
    };
    if !all_ok {
        for s in spellings {
            single(s, &mut bad);
        }
    }
    bad
}

// ------------------------------------------------------------------ other literal kinds

const OTHER: &[(&str, &str)] = &[
    ("true", "bool"), ("false", "bool"), ("null", "null"),
    ("@2020-01-01", "2020-01-01"), ("@1999-12-31", "1999-12-31"),
    ("@10:30", "10:30"), ("@23:59:59", "23:59:59"), ("@08:30:00.123", "08:30:00.123"),
    ("@2020-01-01T10:30:00", "2020-01-01T10:30:00"), ("@2020-01-01T10:30:00Z", "2020-01-01T10:30:00Z"),
    ("@2020-01-01T10:30:00+02:00", "2020-01-01T10:30:00+02:00"), ("@2020-01-01T10:30:00-0800", "2020-01-01T10:30:00-08:00"),
    ("2days", "2"), ("3hours", "3"), ("1years", "1"), ("10microseconds", "10"), ("5months", "5"), ("7weeks", "7"),
    // interval counts at and beyond the i64 boundary, and with digit separators: rejected, or the same count
    ("9223372036854775807days", "9223372036854775807"), ("9223372036854775808days", "9223372036854775808"),
    ("99999999999999999999hours", "99999999999999999999"), ("1_000years", "1000"), ("0days", "0"),
];

pub fn run(tier: Tier) -> i32 {
    let mut run = Run::new("C08", tier);
    let maxlen = tier.pick(3, 4);
    let values = all_values(maxlen);
    // ---- (1) every spelling of every value denotes that value (parser level)
    let outs = par_map(&values, || (), |_, v| {
        let mut bad = vec![];
        let mut n = 0u64;
        for (name, sp) in spellings(v) {
            n += 1;
            match parsed_value(&sp) {
                Ok(got) if got == *v => {}
                Ok(got) => bad.push(Bad { key: format!("spelling-denotes-other-value:{name}"), why: format!("{sp} should denote {v:?}, parses to {got:?}"), value: v.clone(), spelling: sp }),
                Err(e) => bad.push(Bad { key: format!("spelling-not-accepted:{name}"), why: format!("{sp} (value {v:?}): {e}"), value: v.clone(), spelling: sp }),
            }
        }
        (bad, n)
    });
    for (bad, n) in outs {
        run.validated += n;
        run.count("string_spellings_parsed", n);
        for b in bad {
            run.violate(Some(b.key.clone()), b.why.clone(), json!({"driver":"STR","value": b.value, "spelling": b.spelling, "detail": b.why}));
        }
    }
    // ---- (2) execution: plain literal, f-string constant, relation-literal cell; format off and on
    let chunks: Vec<Vec<String>> = values.chunks(40).map(|c| c.to_vec()).collect();
    let outs = par_map(&chunks, Db::new, |db, vals| {
        let mut bad = vec![];
        let plain: Vec<String> = vals.iter().map(|v| spellings(v)[0].1.clone()).collect();
        let fstr: Vec<String> = vals.iter().map(|v| fstring_spelling(v)).collect();
        for d in [Dialect::SQLite, Dialect::Generic] {
            for format in [false, true] {
                bad.extend(exec_batch(db, vals, &plain, d, format, "plain"));
            }
            bad.extend(exec_batch(db, vals, &fstr, d, false, "f-string"));
        }
        // a cell of a relation literal
        for v in vals.iter().take(if vals.len() == 40 { 6 } else { 40 }) {
            let src = format!("from [{{v = {}}}]", spellings(v)[0].1);
            match compile(&src, Dialect::SQLite, false).and_then(|sql| db.query(&sql).map_err(|e| format!("{sql}: {e}"))) {
                Ok((_, rows)) => {
                    if rows.first().and_then(|r| r.first()) != Some(&crate::model::V::Text(v.clone())) {
                        bad.push(Bad { key: "value-changed:relation-literal-cell".into(), why: format!("{src} returns {:?}", rows.first().map(|r| r.iter().map(|x| x.show()).collect::<Vec<_>>())), value: v.clone(), spelling: src.clone() });
                    }
                }
                Err(e) => bad.push(Bad { key: "statement-broken-by-literal:relation-literal-cell".into(), why: format!("{src}: {e}"), value: v.clone(), spelling: src.clone() }),
            }
        }
        bad
    });
    for (vals, bad) in chunks.iter().zip(outs) {
        run.validated += vals.len() as u64 * 6;
        for b in bad {
            // the SQL pretty-printer (format:true) re-spaces the inside of literals that hold a backslash
            let key = if b.key.ends_with("format=true") && b.value.contains('\\') { "sql-formatter-rewrites-literal-with-backslash".to_string() } else { b.key.clone() };
            run.violate(Some(key), b.why.clone(), json!({"driver":"STR-exec","value": b.value, "spelling": b.spelling, "detail": b.why}));
        }
    }
    // ---- (3) all 12 dialects: token structure invariance + value of the string token
    let jobs: Vec<(Dialect, Vec<String>)> = all_dialects().into_iter().flat_map(|d| chunks.iter().map(move |c| (d, c.clone()))).collect();
    let outs = par_map(&jobs, || (), |_, (d, vals)| token_batch(vals, *d));
    for ((_, vals), bad) in jobs.iter().zip(outs) {
        run.validated += vals.len() as u64;
        for b in bad {
            run.observe(fnv(&b.key));
            // cause predicate of the recorded finding: backslash in a dialect whose strings use backslash escapes
            // cause predicates of the recorded finding: the value holds a character whose escaping
            // differs in this dialect (backslash where strings use backslash escapes; a quote in
            // BigQuery, which does not read `''` as an escaped quote)
            let dn = b.key.rsplit(':').next().unwrap_or("").to_string();
            let lexical = b.key.starts_with("string-token-value-differs") || b.key.starts_with("statement-structure-changed") || b.key.starts_with("statement-does-not-tokenise");
            let backslash_dialect = matches!(dn.as_str(), "mysql" | "bigquery" | "clickhouse" | "snowflake" | "redshift");
            let key = if lexical && ((backslash_dialect && b.value.contains('\\')) || (dn == "bigquery" && b.value.contains('\''))) {
                format!("string-escaping-not-adapted-to-dialect:{dn}")
            } else {
                b.key.clone()
            };
            run.violate(Some(key), b.why.clone(), json!({"driver":"STR-tokens","value": b.value, "spelling": b.spelling, "detail": b.why}));
        }
    }
    // ---- numbers
    let nums = number_spellings(tier.pick(4, 5));
    run.count("number_spellings_accepted_by_lexer", nums.len() as u64);
    let nchunks: Vec<Vec<String>> = nums.chunks(40).map(|c| c.to_vec()).collect();
    let outs = par_map(&nchunks, Db::new, |db, c| {
        let mut bad = vec![];
        for d in [Dialect::SQLite, Dialect::Generic] {
            for format in [false, true] {
                bad.extend(check_numbers(db, c, d, format));
            }
        }
        bad
    });
    for (c, bad) in nchunks.iter().zip(outs) {
        run.validated += c.len() as u64 * 4;
        for b in bad {
            run.violate(Some(b.key.clone()), b.why.clone(), json!({"driver":"STR-numbers","spelling": b.spelling, "detail": b.why}));
        }
    }
    // ---- escape sequences, well-formed or not: every text `\` + w, w over an alphabet of escape-relevant characters
    // up to length 4 (5 thorough), in double and single quotes and as f-string text, against a reference decoder of
    // the documented rules (\\ \/ \b \f \n \r \t, \xHH, \u{H…} of a code point, the quote; anything else: the character
    // itself, the rest of the text untouched)
    {
        const ESC: &[char] = &['x', 'u', '{', '}', '+', '-', '4', 'a', 'g', '0', 'n', 'D', '8'];
        fn decode(body: &str, quote: char) -> String {
            let cs: Vec<char> = body.chars().collect();
            let mut out = String::new();
            let mut i = 0;
            while i < cs.len() {
                if cs[i] != '\\' || i + 1 >= cs.len() {
                    out.push(cs[i]);
                    i += 1;
                    continue;
                }
                let c = cs[i + 1];
                i += 2;
                match c {
                    '\\' | '/' => out.push(c),
                    'b' => out.push('\u{8}'),
                    'f' => out.push('\u{c}'),
                    'n' => out.push('\n'),
                    'r' => out.push('\r'),
                    't' => out.push('\t'),
                    'x' if i + 1 < cs.len() && cs[i].is_ascii_hexdigit() && cs[i + 1].is_ascii_hexdigit() => {
                        let v = u32::from_str_radix(&cs[i..i + 2].iter().collect::<String>(), 16).unwrap();
                        out.push(char::from_u32(v).unwrap());
                        i += 2;
                    }
                    'u' if i < cs.len() && cs[i] == '{' => {
                        let digits: String = cs[i + 1..].iter().take_while(|c| c.is_ascii_hexdigit()).collect();
                        let close = i + 1 + digits.chars().count();
                        let ch = if !digits.is_empty() && digits.len() <= 6 && close < cs.len() && cs[close] == '}' { u32::from_str_radix(&digits, 16).ok().and_then(char::from_u32) } else { None };
                        match ch {
                            Some(ch) => {
                                out.push(ch);
                                i = close + 1;
                            }
                            None => out.push('u'),
                        }
                    }
                    c if c == quote => out.push(c),
                    other => out.push(other),
                }
            }
            out
        }
        let maxw = tier.pick(4, 5);
        let mut words: Vec<String> = vec![];
        for len in 1..=maxw {
            for mut i in 0..(ESC.len() as u64).pow(len as u32) {
                let mut w = String::new();
                for _ in 0..len {
                    w.push(ESC[(i % ESC.len() as u64) as usize]);
                    i /= ESC.len() as u64;
                }
                // only words whose first character makes the backslash the start of an escape form of interest
                if w.starts_with('x') || w.starts_with('u') || len <= 2 {
                    words.push(w);
                }
            }
        }
        let outs = par_map(&words, || (), |_, w| {
            let mut bad = vec![];
            for (q, name) in [('"', "double-quoted"), ('\'', "single-quoted")] {
                let body = format!("a\\{w}z");
                let sp = format!("{q}{body}{q}");
                let want = decode(&body, q);
                match parsed_value(&sp) {
                    Ok(got) if got == want => {}
                    Ok(got) => bad.push(Bad { key: format!("escape-sequence-denotes-other-value:{}", if w.starts_with('x') { "x" } else if w.starts_with('u') { "u" } else { "other" }), why: format!("{name} {sp} should denote {want:?} (documented escape rules), parses to {got:?}"), value: want.clone(), spelling: sp }),
                    Err(e) => bad.push(Bad { key: "escape-sequence-not-accepted".into(), why: format!("{sp}: {e}"), value: want.clone(), spelling: sp }),
                }
            }
            bad
        });
        for bad in outs {
            run.validated += 2;
            run.count("escape_words", 1);
            for b in bad {
                run.violate(Some(b.key.clone()), b.why.clone(), json!({"driver":"STR-escapes","value": b.value, "spelling": b.spelling, "detail": b.why}));
            }
        }
    }
    // ---- other literal kinds: structure invariance against a benign literal of the same kind
    for d in all_dialects() {
        for (lit, text) in OTHER {
            let src = format!("from t | select {{v = {lit}}}");
            let Ok(sql) = compile(&src, d, false) else {
                run.count("other_literals_rejected_by_dialect", 1);
                continue;
            };
            run.validated += 1;
            match tokenise(&sql, d) {
                Err(e) => run.violate(Some(format!("statement-does-not-tokenise:{}", dname(d))), format!("[{}] {lit} → {sql}: {e}", dname(d)), json!({"driver":"other","spelling": lit, "sql": sql})),
                Ok((kinds, strings)) => {
                    // time-zone offsets may be re-spelled (+02:00 / +0200): compare without colons
                    let carries = *text == "bool" || *text == "null" || sql.replace(':', "").contains(&text.replace(':', ""));
                    let shape_ok = kinds.first().map(|k| k == "W:SELECT").unwrap_or(false) && kinds.iter().filter(|k| *k == "W:FROM").count() == 1 && !kinds.contains(&"COMMENT".to_string()) && !kinds.contains(&";".to_string());
                    if !carries || !shape_ok {
                        run.violate(Some(format!("literal-text-or-structure-lost:{}", dname(d))), format!("[{}] {lit} → {sql} (strings {strings:?})", dname(d)), json!({"driver":"other","spelling": lit, "sql": sql}));
                    }
                }
            }
        }
    }
    // ---- literals that reach their place of use through a name: a let constant, a function parameter, a
    // named default — as a value of their own and as a hole of an f-string. The value must be the one the
    // literal has when written in place; the f-string must be the concatenation of that value (the engine's
    // own text conversion of it) with the constant text around it.
    {
        const LITS: &[&str] = &["'x'", "\"it's\"", "r\"C:\\dir\"", "r'a\"b'", "'a\\\\b'", "''", "' '", "7", "-3", "0", "2.0", "0.5", "1e3", "-2.50", "true", "false", "@2024-02-29", "@10:30:00", "@2024-02-29T10:30:00"];
        let db = Db::new();
        for d in &crate::relcheck::EXEC_DIALECTS {
            for lit in LITS {
                // the literal written in place
                let direct = format!("from [{{z = 1}}]\nselect {{x = {lit}}}");
                let Ok(dsql) = compile(&direct, *d, false) else { continue };
                let Ok((_, drows)) = db.query(&dsql) else { continue };
                let Some(v) = drows.first().and_then(|r| r.first()).cloned() else { continue };
                // what the engine makes of '[' || value || ']'
                let want_text = {
                    let st = db.query(&format!("SELECT '[' || ({}) || ']'", {
                        // the value expression of the direct statement: between SELECT and AS x
                        let up = dsql.replace('\n', " ");
                        let a = up.rfind("SELECT").map(|i| i + 6).unwrap_or(0);
                        let z = up.rfind(" AS x").unwrap_or(up.len());
                        up[a..z].trim().to_string()
                    }));
                    st.ok().and_then(|(_, r)| r.first().and_then(|r| r.first()).cloned())
                };
                let through: Vec<(&str, String, bool)> = vec![
                    ("let-constant", format!("let v = {lit}\nfrom [{{z = 1}}]\nselect {{x = v}}"), false),
                    ("function-parameter", format!("let idf = p -> p\nfrom [{{z = 1}}]\nselect {{x = idf {lit}}}"), false),
                    ("named-default", format!("let idf = q d:{} -> d\nfrom [{{z = 1}}]\nselect {{x = idf 0}}", if lit.starts_with('-') || lit.starts_with('@') { format!("({lit})") } else { lit.to_string() }), false),
                    ("f-string-hole-let-constant", format!("let v = {lit}\nfrom [{{z = 1}}]\nselect {{x = f\"[{{v}}]\"}}"), true),
                    ("f-string-hole-function-parameter", format!("let lab = p -> f\"[{{p}}]\"\nfrom [{{z = 1}}]\nselect {{x = lab {lit}}}"), true),
                ];
                for (how, src, is_f) in through {
                    run.validated += 1;
                    run.count("literals_through_names:cases", 1);
                    let Ok(sql) = compile(&src, *d, false) else {
                        run.count("literals_through_names:not_compiled", 1);
                        continue;
                    };
                    let got = db.query(&sql).ok().and_then(|(_, r)| r.first().and_then(|r| r.first()).cloned());
                    let want = if is_f { want_text.clone() } else { Some(v.clone()) };
                    if got.is_none() || want.is_none() {
                        run.count("literals_through_names:not_executable", 1);
                        continue;
                    }
                    // an empty hole value: the engine's CONCAT and || agree on text, not on NULL; null is not in the list
                    let same = match (&got, &want) {
                        (Some(a), Some(b)) => a == b,
                        _ => false,
                    };
                    if !same {
                        run.violate(
                            Some(format!("literal-through-name-changes-value:{how}")),
                            format!("[{}] {} → {} returns {:?}; the literal in place gives {:?}", dname(*d), src.replace('\n', " | "), sql.replace('\n', " "), got.map(|g| g.show()), want.map(|g| g.show())),
                            json!({"driver":"through-name","source": src, "dialect": dname(*d), "sql": sql}),
                        );
                    }
                }
            }
        }
    }
    run.states = values.len() as u64 + nums.len() as u64 + OTHER.len() as u64;
    run.transitions = run.validated;
    run.set("bounds", json!({"string_alphabet": SIGMA.iter().map(|c| c.escape_default().to_string()).collect::<Vec<_>>(), "max_len": maxlen, "values": values.len(), "spellings": ["single-quoted","double-quoted","triple-single","triple-double","single-quoted-verbatim","double-quoted-verbatim","triple-double-verbatim","raw-single","raw-double","unicode-escapes","hex-escapes","f-string constant","relation-literal cell"], "number_alphabet": NUM_SIGMA.iter().collect::<String>(), "number_max_len": tier.pick(4, 5), "other_literals": OTHER.len(), "executed": ["sqlite","generic"], "format": [false, true], "tokenised_dialects": 12}));
    run.set("rule", json!("every string over the alphabet up to max_len: each spelling must parse to that value; the compiled statement must return exactly that text (SQLite executes sqlite and generic output, format off and on); for all 12 dialects the statement tokenises (sqlparser tokenizer of that dialect) to the same token kinds as with a benign literal and its string token reads back as the value"));
    run.assume("sqlparser's tokenizer stands for each dialect's lexical rules (backslash escapes for MySQL, BigQuery, ClickHouse, Snowflake…)");
    run.finish()
}

pub fn replay(v: &J) -> i32 {
    // spelling-level records: the spelling must parse to the recorded value
    if let (Some(value), Some(sp), Some("STR" | "STR-escapes")) = (v["value"].as_str(), v["spelling"].as_str(), v["driver"].as_str()) {
        return match parsed_value(sp) {
            Ok(got) if got == value => {
                println!("OK {sp} parses to {got:?}");
                0
            }
            other => {
                println!("FAIL {sp} should denote {value:?}: {other:?}");
                1
            }
        };
    }
    println!("value {:?} spelling {:?}: re-run ./check C08 quick", v["value"], v["spelling"]);
    1
}
