//! Instance spaces: the designed pool and the exhaustive small space.

use crate::model::{Inst, V};

fn i(x: i64) -> V {
    V::Int(x)
}
const N: V = V::Null;

fn mk(name: &str, t: Vec<[V; 2]>, u: Vec<[V; 2]>) -> Inst {
    Inst { name: name.into(), t: t.into_iter().map(|r| r.to_vec()).collect(), u: u.into_iter().map(|r| r.to_vec()).collect() }
}

/// The designed pool: every program is run on all of these.
pub fn pool() -> Vec<Inst> {
    vec![
        mk("empty-empty", vec![], vec![]),
        mk("empty-t", vec![], vec![[i(1), i(2)]]),
        mk("one-row", vec![[i(1), i(2)]], vec![[i(1), i(3)]]),
        mk("one-row-no-match", vec![[i(2), i(1)]], vec![[i(1), i(2)]]),
        mk("duplicates", vec![[i(1), i(2)], [i(1), i(2)], [i(2), i(1)]], vec![[i(1), i(2)], [i(1), i(2)]]),
        mk("null-join-key", vec![[N, i(1)], [i(1), i(2)], [i(2), N]], vec![[N, i(1)], [i(2), i(2)]]),
        mk("null-group-key", vec![[N, i(1)], [N, i(2)], [i(1), N], [i(1), i(3)]], vec![[i(1), N]]),
        mk("all-null-column", vec![[i(1), N], [i(2), N]], vec![[i(1), N]]),
        mk("equal-sort-key", vec![[i(2), i(1)], [i(2), i(2)], [i(2), i(3)]], vec![[i(2), i(2)], [i(3), i(2)]]),
        mk("unique-keys", vec![[i(3), i(1)], [i(1), i(2)], [i(2), i(3)]], vec![[i(1), i(1)], [i(2), i(3)], [i(4), i(2)]]),
        mk(
            "unique-4",
            vec![[i(4), i(1)], [i(2), i(4)], [i(1), i(3)], [i(3), i(2)]],
            vec![[i(1), i(4)], [i(3), i(1)], [i(2), i(2)]],
        ),
        mk(
            "groups-of-2",
            vec![[i(1), i(1)], [i(1), i(3)], [i(2), i(2)], [i(2), i(5)], [i(3), i(4)]],
            vec![[i(1), i(2)], [i(2), i(1)], [i(2), i(3)]],
        ),
        mk("shared-name-different-values", vec![[i(1), i(5)], [i(2), i(6)]], vec![[i(5), i(1)], [i(2), i(2)], [i(1), i(1)]]),
        mk("negatives-zero", vec![[i(0), i(-1)], [i(-2), i(0)], [i(1), i(1)]], vec![[i(0), i(0)], [i(-1), i(2)]]),
    ]
}

/// All instances with |t| ≤ nt, |u| ≤ nu over D = {NULL,1,2}; rows as ordered sequences up to
/// permutation (multisets), i.e. non-decreasing row codes.
pub fn exhaustive(nt: usize, nu: usize) -> Vec<Inst> {
    let d = [N, i(1), i(2)];
    let rows: Vec<[V; 2]> = d.iter().flat_map(|a| d.iter().map(move |b| [a.clone(), b.clone()])).collect();
    fn multisets(rows: &[[V; 2]], max: usize) -> Vec<Vec<[V; 2]>> {
        let mut out = vec![vec![]];
        fn rec(rows: &[[V; 2]], start: usize, left: usize, cur: &mut Vec<[V; 2]>, out: &mut Vec<Vec<[V; 2]>>) {
            if left == 0 {
                return;
            }
            for k in start..rows.len() {
                cur.push(rows[k].clone());
                out.push(cur.clone());
                rec(rows, k, left - 1, cur, out);
                cur.pop();
            }
        }
        rec(rows, 0, max, &mut vec![], &mut out);
        out
    }
    let ts = multisets(&rows, nt);
    let us = multisets(&rows, nu);
    let mut out = vec![];
    for (ti, t) in ts.iter().enumerate() {
        for (ui, u) in us.iter().enumerate() {
            out.push(mk(&format!("exh-{ti}-{ui}"), t.clone(), u.clone()));
        }
    }
    out
}
