//! C15 — staged compilation through JSON equals one-shot compile.

use crate::apgen::{GenCfg, Letters, SrcKind};
use crate::iso::guard;
use crate::relcheck::{all_dialects, dname};
use crate::report::{fnv, par_map, Run, Tier};
use crate::seeds;
use prqlc::{ErrorMessages, Options, SourceTree, Target};
use serde_json::{json, Value as J};

#[derive(Debug)]
pub struct Bad {
    pub key: String,
    pub why: String,
}

fn err_sig(e: &ErrorMessages) -> String {
    // what a binding sees: kind, code, reason, hints, span, location, display
    e.inner
        .iter()
        .map(|m| format!("{:?}|{:?}|{}|{:?}|{:?}|{:?}|{:?}", m.kind, m.code, m.reason, m.hints, m.span, m.location.as_ref().map(|l| (l.start, l.end)), m.display))
        .collect::<Vec<_>>()
        .join("\n")
}

fn opt_sets(full: bool) -> Vec<(String, Options)> {
    let mut v = vec![];
    let base = || Options::default().with_display(prqlc::DisplayOptions::Plain);
    if full {
        for d in all_dialects() {
            for fmt in [false, true] {
                for sig in [false, true] {
                    v.push((format!("sql.{} format={fmt} signature={sig}", dname(d)), base().with_target(Target::Sql(Some(d))).with_format(fmt).with_signature_comment(sig)));
                }
            }
        }
        v.push(("target absent format=true signature=true".into(), base()));
    } else {
        v.push(("target absent format=false signature=false".into(), base().no_format().no_signature()));
        v.push(("sql.sqlite format=true signature=true".into(), base().with_target(Target::Sql(Some(prqlc::sql::Dialect::SQLite)))));
        v.push(("sql.mssql format=false signature=false".into(), base().no_format().no_signature().with_target(Target::Sql(Some(prqlc::sql::Dialect::MsSql)))));
    }
    v
}

/// Check one source; `full` = whole option matrix.
pub fn check_source(src: &str, full: bool) -> (Vec<Bad>, u8) {
    let mut bad = vec![];
    let tree = SourceTree::from(src);
    let opts = opt_sets(full);
    macro_rules! g {
        ($e:expr, $what:expr) => {
            match guard(|| $e) {
                Ok(v) => v,
                Err(p) => {
                    // a panic is C12's finding; there is nothing to compare for this source
                    bad.push(Bad { key: "skipped-panic".into(), why: format!("{} panics at {}: {}", $what, p.site, p.msg) });
                    return (bad, 0);
                }
            }
        };
    }
    // ---- stage 1: PL through JSON
    let pl = match g!(prqlc::prql_to_pl(src), "prql_to_pl") {
        Ok(pl) => pl,
        Err(e) => {
            // the one-shot compile must report the same error
            let (_, o) = &opts[0];
            match g!(prqlc::compile(src, o), "compile") {
                Ok(sql) => bad.push(Bad { key: "compile-accepts-what-prql_to_pl-rejects".into(), why: format!("compile gives {sql}") }),
                Err(e2) => {
                    if err_sig(&e) != err_sig(&e2) {
                        bad.push(Bad { key: "parse-error-differs".into(), why: format!("prql_to_pl: {}\ncompile: {}", err_sig(&e), err_sig(&e2)) });
                    }
                }
            }
            return (bad, 1);
        }
    };
    let js = match g!(prqlc::json::from_pl(&pl), "json::from_pl") {
        Ok(j) => j,
        Err(e) => {
            bad.push(Bad { key: "from_pl-fails".into(), why: e.to_string() });
            return (bad, 1);
        }
    };
    let pl2 = match g!(prqlc::json::to_pl(&js), "json::to_pl") {
        Ok(p) => p,
        Err(e) => {
            bad.push(Bad { key: if e.to_string().contains("recursion limit exceeded") { "json-nested-deeper-than-128-levels-does-not-read-back".into() } else { "pl-json-does-not-read-back".into() }, why: format!("{e} :: {}", js.chars().take(300).collect::<String>()) });
            return (bad, 1);
        }
    };
    if pl2 != pl {
        bad.push(Bad { key: "pl-json-roundtrip-not-equal".into(), why: "to_pl(from_pl(pl)) != pl".into() });
    }
    match g!(prqlc::json::from_pl(&pl2), "json::from_pl") {
        Ok(js2) if js2 == js => {}
        Ok(js2) => {
            // named arguments / header options live in hash maps: compare as JSON values
            let (a, b): (J, J) = (serde_json::from_str(&js).unwrap_or(J::Null), serde_json::from_str(&js2).unwrap_or(J::Null));
            if a != b {
                bad.push(Bad { key: "pl-second-serialisation-differs".into(), why: "from_pl(to_pl(js)) differs as a JSON value".into() });
            }
        }
        Err(e) => bad.push(Bad { key: "from_pl-fails".into(), why: e.to_string() }),
    }
    // ---- stage 2: RQ through JSON
    let rq = match g!(prqlc::pl_to_rq(pl2), "pl_to_rq") {
        Ok(rq) => rq,
        Err(e) => {
            let e = g!(e.composed(&tree), "ErrorMessages::composed");
            let (_, o) = &opts[0];
            match g!(prqlc::compile(src, o), "compile") {
                Ok(sql) => bad.push(Bad { key: "compile-accepts-what-staged-resolver-rejects".into(), why: format!("compile gives {sql}") }),
                Err(e2) => {
                    if err_sig(&e) != err_sig(&e2) {
                        bad.push(Bad { key: "resolve-error-differs".into(), why: format!("staged: {}\ncompile: {}", err_sig(&e), err_sig(&e2)) });
                    }
                }
            }
            return (bad, 2);
        }
    };
    let jr = match g!(prqlc::json::from_rq(&rq), "json::from_rq") {
        Ok(j) => j,
        Err(e) => {
            bad.push(Bad { key: "from_rq-fails".into(), why: e.to_string() });
            return (bad, 2);
        }
    };
    let rq2 = match g!(prqlc::json::to_rq(&jr), "json::to_rq") {
        Ok(r) => r,
        Err(e) => {
            bad.push(Bad { key: if e.to_string().contains("recursion limit exceeded") { "json-nested-deeper-than-128-levels-does-not-read-back".into() } else { "rq-json-does-not-read-back".into() }, why: format!("{e} :: {}", jr.chars().take(300).collect::<String>()) });
            return (bad, 2);
        }
    };
    if rq2 != rq {
        bad.push(Bad { key: "rq-json-roundtrip-not-equal".into(), why: "to_rq(from_rq(rq)) != rq".into() });
    }
    match g!(prqlc::json::from_rq(&rq2), "json::from_rq") {
        Ok(j2) if j2 == jr => {}
        Ok(j2) => {
            let (a, b): (J, J) = (serde_json::from_str(&jr).unwrap_or(J::Null), serde_json::from_str(&j2).unwrap_or(J::Null));
            if a != b {
                bad.push(Bad { key: "rq-second-serialisation-differs".into(), why: "from_rq(to_rq(js)) differs as a JSON value".into() });
            }
        }
        Err(e) => bad.push(Bad { key: "from_rq-fails".into(), why: e.to_string() }),
    }
    // ---- stage 3: SQL, for every option combination
    for (name, o) in &opts {
        let staged = g!(prqlc::rq_to_sql(rq2.clone(), o).map_err(|e| e.composed(&tree)), "rq_to_sql");
        let direct = g!(prqlc::compile(src, o), "compile");
        match (staged, direct) {
            (Ok(a), Ok(b)) => {
                if a != b {
                    bad.push(Bad { key: "staged-sql-differs".into(), why: format!("[{name}] staged {a:?} vs compile {b:?}") });
                }
            }
            (Err(a), Err(b)) => {
                if err_sig(&a) != err_sig(&b) {
                    bad.push(Bad { key: "sql-error-differs".into(), why: format!("[{name}] staged: {}\ncompile: {}", err_sig(&a), err_sig(&b)) });
                }
            }
            (Ok(a), Err(b)) => bad.push(Bad { key: "staged-ok-compile-err".into(), why: format!("[{name}] staged {a:?} vs compile error {}", err_sig(&b)) }),
            (Err(a), Ok(b)) => bad.push(Bad { key: "staged-err-compile-ok".into(), why: format!("[{name}] staged error {} vs compile {b:?}", err_sig(&a)) }),
        }
    }
    (bad, 3)
}

const HEADERED: &[&str] = &[
    "prql target:sql.mssql\nfrom t | take 3",
    "prql target:sql.sqlite version:\"0.13\"\nfrom t | select {x = a // b}",
    "prql target:sql.bigquery\nfrom `a-b`.c | select {d}",
    "prql target:sql.any\nfrom t | sort a | take 2..",
    "prql target:sql.nosuch\nfrom t",
    "prql version:\"99.0\"\nfrom t",
];

pub fn run(tier: Tier) -> i32 {
    let mut run = Run::new("C15", tier);
    // (source, full option matrix?)
    let mut sources: Vec<(String, bool, J)> = vec![];
    for (n, s) in seeds::all_seeds() {
        sources.push((s, tier == Tier::Thorough || n.starts_with("queries/") || n.starts_with("hand#"), json!({"driver":"seed","seed": n})));
    }
    for s in HEADERED {
        sources.push((s.to_string(), true, json!({"driver":"header"})));
    }
    // header × body: every header (target known / unknown, version met / unmet / malformed, both, unknown option) in
    // front of a body that is fine or fails at one particular stage — when two things are wrong, both paths must
    // report the same one
    {
        let headers = ["prql version:\"99.0\"", "prql version:\"0.1\"", "prql version:\"x.y\"", "prql target:sql.nosuch", "prql target:sql.postgres version:\"99\"", "prql target:sql.nosuch version:\"99\"", "prql nosuch:1", "prql target:sql.sqlite"];
        let bodies = [
            "from t | take 3",
            "from t | derive x = frobnicate a",
            "from t | select {a} | filter b > 1",
            "let x = 5",
            "from t | select {x = (a | date.to_text \"%Y\")}",
            "from t | select {a ^ b}",
            "from t | select {a, b = }",
            "from t | take 1 2",
            "from t | join (1 + 1) true",
        ];
        for h in headers {
            for b in bodies {
                sources.push((format!("{h}\n{b}"), true, json!({"driver":"header-x-body"})));
            }
        }
    }
    // the syntax-tree space of C14 (every node kind, optional fields present and absent)
    let (cases, st) = crate::engine::collect(0, |c| crate::c14::gen_source(c, tier));
    for (s, ch) in cases {
        sources.push((s, false, json!({"driver":"EX","choices": ch})));
    }
    // relational programs
    let cfg = GenCfg { depth: tier.pick(1, 2), sources: vec![SrcKind::OpenT, SrcKind::LetClosed, SrcKind::Literal], max_joins: 1, letters: Letters::Core };
    let (progs, st2) = crate::relrun::enumerate(&[cfg]);
    for (p, ch, _) in &progs {
        sources.push((crate::model::pr_program(p), false, json!({"driver":"AP","choices": ch})));
    }
    // numbers: (a) float literals whose shortest spelling needs 16-17 digits — a strided walk through the doubles
    // from 1.0, 1e-30.. and 1e30.., plus short spellings at the extremes; (b) arithmetic on pairs of boundary float
    // literals (a compile-time fold must keep a representable value), directly and through a function default;
    // (c) expression and pipeline depth (a JSON document nests several levels per operator)
    {
        let mut lits: Vec<String> = vec![];
        for base in [1.0f64, 1e-30, 1e30, 0.1, 123456.789] {
            let bits = base.to_bits();
            for k in 0..tier.pick(150u64, 1500u64) {
                lits.push(format!("{:?}", f64::from_bits(bits + k * 7919)));
            }
        }
        lits.extend(["4.35e30", "2.5e-30", "1.7976931348623157e308", "5e-324", "2.2250738585072014e-308", "0.30000000000000004", "9007199254740993.0", "1e22", "1e23"].iter().map(|s| s.to_string()));
        for l in &lits {
            sources.push((format!("from t | select {{x = {l}}}"), false, json!({"driver":"float-literal"})));
        }
        let edge = ["1e308", "1.7976931348623157e308", "1e-308", "5e-324", "10.0", "0.1", "-1e308", "0.0", "3.0"];
        for l in edge {
            for r in edge {
                for op in ["+", "-", "*", "/"] {
                    sources.push((format!("from t | derive x = {l} {op} {r}"), false, json!({"driver":"float-fold"})));
                }
            }
            sources.push((format!("let scale = x f:{l} -> x * f\nfrom t | derive y = (scale 1e200)"), false, json!({"driver":"float-fold"})));
            sources.push((format!("let k = {l}\nfrom t | filter a > k * 10.0"), false, json!({"driver":"float-fold"})));
        }
        for n in [8usize, 16, 24, 30, 31, 32, 40, 64] {
            sources.push((format!("from t | derive x = {}", vec!["a"; n].join(" + ")), false, json!({"driver":"depth"})));
            sources.push((format!("from t | derive x = {}a{}", "(".repeat(n), ")".repeat(n)), false, json!({"driver":"depth"})));
            sources.push((format!("from t | derive x = {}a", "-".repeat(n).replace("--", "- -")), false, json!({"driver":"depth"})));
            sources.push((format!("from t{}", " | filter a > 1".repeat(n)), false, json!({"driver":"depth"})));
            sources.push((format!("from t | select {{x = {}a{}}}", "{y = ".repeat(n.min(16)), "}".repeat(n.min(16))), false, json!({"driver":"depth"})));
        }
    }
    let mut seen = std::collections::HashSet::new();
    sources.retain(|(s, _, _)| seen.insert(s.clone()));
    let outs = par_map(&sources, || (), |_, (s, full, _)| check_source(s, *full));
    for ((s, full, meta), (bad, stage)) in sources.iter().zip(outs) {
        run.validated += if *full { 97 } else { 3 };
        run.count(&format!("sources_reaching_stage_{stage}"), 1);
        run.observe(fnv(&format!("{stage}{}{}", bad.len(), s.split_whitespace().take(2).collect::<String>())));
        if bad.is_empty() && stage == 3 && *full && run.samples.len() < 5 {
            run.sample(json!({"source": s, "option_combinations": 97, "verdict": "PL and RQ JSON round-trip; staged SQL = compile for every combination"}));
        }
        for b in bad {
            if b.key == "skipped-panic" {
                run.count("sources_skipped_because_a_stage_panics (C12)", 1);
                continue;
            }
            let mut d = meta.clone();
            d["source"] = json!(s);
            d["full_matrix"] = json!(full);
            d["detail"] = json!(b.why);
            run.violate(Some(b.key.clone()), format!("{:?} :: {}", s.chars().take(160).collect::<String>(), b.why.chars().take(500).collect::<String>()), d);
        }
    }
    run.states = sources.len() as u64;
    run.transitions = st.points + st2.points;
    run.set("bounds", json!({"option_matrix": "12 dialects × format on/off × signature on/off + defaults (97 combinations) for integration queries, hand seeds, headered sources (thorough: all seeds); 3 combinations for the enumerated tree space", "tree_space": "C14 expression families × embeddings", "relational_programs_depth": tier.pick(1, 2)}));
    run.set("rule", json!("source → PL → JSON → PL → RQ → JSON → RQ → SQL against compile(source): equal values after each round trip, equal second serialisation, equal SQL or equal error (kind, code, reason, hints, span, location, display after composition)"));
    run.assume("errors of the staged chain are composed against the same source before comparison (compile composes them itself)");
    run.finish()
}

pub fn replay(v: &J) -> i32 {
    let s = v["source"].as_str().unwrap_or("");
    let (bad, stage) = check_source(s, v["full_matrix"].as_bool().unwrap_or(false));
    for b in &bad {
        println!("FAIL [{}] {}", b.key, b.why);
    }
    if bad.is_empty() {
        println!("OK (stage {stage})");
        0
    } else {
        1
    }
}
