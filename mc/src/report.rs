//! Evidence, violations/replay files, known findings, parallel map.

use serde_json::{json, Map, Value as J};
use std::collections::{BTreeMap, BTreeSet};
use std::hash::{Hash, Hasher};
use std::path::PathBuf;
use std::sync::atomic::{AtomicUsize, Ordering};
use std::sync::Mutex;
use std::time::Instant;

/// root of the repository checkout under check (MC_REPO, default /repo)
pub fn repo_root() -> String {
    std::env::var("MC_REPO").unwrap_or_else(|_| "/repo".to_string())
}

pub fn verif_root() -> PathBuf {
    std::env::var("VERIF_ROOT").map(PathBuf::from).unwrap_or_else(|_| PathBuf::from("/verif"))
}

#[derive(Clone, Copy, PartialEq, Eq, Debug)]
pub enum Tier {
    Quick,
    Thorough,
}
impl Tier {
    pub fn name(self) -> &'static str {
        match self {
            Tier::Quick => "quick",
            Tier::Thorough => "thorough",
        }
    }
    pub fn pick<T>(self, q: T, t: T) -> T {
        match self {
            Tier::Quick => q,
            Tier::Thorough => t,
        }
    }
}

pub fn fnv(s: &str) -> u64 {
    let mut h: u64 = 0xcbf29ce484222325;
    for b in s.bytes() {
        h ^= b as u64;
        h = h.wrapping_mul(0x100000001b3);
    }
    h
}

pub fn hash_of<T: Hash>(t: &T) -> u64 {
    let mut h = std::collections::hash_map::DefaultHasher::new();
    t.hash(&mut h);
    h.finish()
}

#[derive(Clone, Debug, serde::Deserialize)]
pub struct KnownFinding {
    pub property: String,
    pub key: String,
    pub what: String,
    pub status: String,
}

pub fn load_known(property: &str) -> Vec<KnownFinding> {
    let p = verif_root().join("known_findings.jsonl");
    let Ok(txt) = std::fs::read_to_string(&p) else { return vec![] };
    txt.lines()
        .filter(|l| !l.trim().is_empty() && !l.trim_start().starts_with('#'))
        .filter_map(|l| match serde_json::from_str::<KnownFinding>(l) {
            Ok(k) => Some(k),
            Err(e) => {
                eprintln!("MACHINERY ERROR: bad line in known_findings.jsonl: {e}: {l}");
                std::process::exit(2);
            }
        })
        .filter(|k| k.property == property)
        .collect()
}

/// One failing case.
#[derive(Clone, Debug)]
pub struct Violation {
    /// cause key from the checker's closed list of cause predicates (None = unattributed)
    pub key: Option<String>,
    pub summary: String,
    /// everything needed to replay
    pub detail: J,
}

pub struct Run {
    pub property: String,
    pub tier: Tier,
    pub start: Instant,
    pub coverage: Map<String, J>,
    pub assumptions: Vec<String>,
    pub violations: Vec<Violation>,
    pub counters: BTreeMap<String, u64>,
    pub samples: Vec<J>,
    pub distinct: BTreeSet<u64>,
    pub exhaustive: bool,
    pub states: u64,
    pub transitions: u64,
    pub validated: u64,
}

impl Run {
    pub fn new(property: &str, tier: Tier) -> Self {
        Run {
            property: property.to_string(),
            tier,
            start: Instant::now(),
            coverage: Map::new(),
            assumptions: vec![],
            violations: vec![],
            counters: BTreeMap::new(),
            samples: vec![],
            distinct: BTreeSet::new(),
            exhaustive: true,
            states: 0,
            transitions: 0,
            validated: 0,
        }
    }
    pub fn count(&mut self, k: &str, n: u64) {
        *self.counters.entry(k.to_string()).or_insert(0) += n;
    }
    pub fn set(&mut self, k: &str, v: J) {
        self.coverage.insert(k.to_string(), v);
    }
    pub fn assume(&mut self, s: &str) {
        self.assumptions.push(s.to_string());
    }
    pub fn sample(&mut self, v: J) {
        if self.samples.len() < 12 {
            self.samples.push(v);
        }
    }
    pub fn observe(&mut self, h: u64) {
        self.distinct.insert(h);
    }
    pub fn violate(&mut self, key: Option<String>, summary: String, detail: J) {
        self.violations.push(Violation { key, summary, detail });
    }

    /// Write evidence, replay files, print VIOLATION / KNOWN-FINDING lines; returns the exit code.
    pub fn finish(mut self) -> i32 {
        let known = load_known(&self.property);
        let open: BTreeMap<String, &KnownFinding> =
            known.iter().filter(|k| k.status == "open").map(|k| (k.key.clone(), k)).collect();
        let mut known_met: BTreeMap<String, (u64, String)> = BTreeMap::new();
        let mut fresh: Vec<&Violation> = vec![];
        for v in &self.violations {
            match v.key.as_ref().and_then(|k| open.get(k).map(|f| (k, f))) {
                Some((k, f)) => {
                    let e = known_met.entry(k.clone()).or_insert((0, f.what.clone()));
                    e.0 += 1;
                }
                None => fresh.push(v),
            }
        }
        if let Ok(path) = std::env::var("MC_DUMP") {
            let mut txt = String::new();
            for v in &self.violations {
                txt.push_str(&format!("{}\t{}\n", v.key.clone().unwrap_or_else(|| "-".into()), v.summary.replace('\n', " ⏎ ")));
            }
            let _ = std::fs::write(path, txt);
        }
        // replay files for fresh violations (grouped by key, at most 5 per key, 40 in total)
        let dir = verif_root().join("replays").join(&self.property);
        let _ = std::fs::create_dir_all(&dir);
        let mut per_key: BTreeMap<String, u32> = BTreeMap::new();
        let mut lines = vec![];
        for v in &fresh {
            let k = v.key.clone().unwrap_or_else(|| "unattributed".into());
            let n = per_key.entry(k.clone()).or_insert(0);
            *n += 1;
            if *n > 5 || lines.len() >= 40 {
                continue;
            }
            let mut d = v.detail.clone();
            if let J::Object(m) = &mut d {
                m.insert("property".into(), json!(self.property));
                m.insert("summary".into(), json!(v.summary));
                m.insert("cause_key".into(), json!(v.key));
            }
            let txt = serde_json::to_string_pretty(&d).unwrap();
            let path = dir.join(format!("{:016x}.json", fnv(&txt)));
            std::fs::write(&path, txt).expect("write replay");
            lines.push(format!(
                "VIOLATION property={} replay={}   # [{}] {}",
                self.property,
                path.display(),
                k,
                v.summary.replace('\n', " ⏎ ")
            ));
        }
        for (k, (n, what)) in &known_met {
            println!("KNOWN-FINDING: property={} {} [key={} cases={}]", self.property, what, k, n);
        }
        for l in &lines {
            println!("{l}");
        }
        if fresh.len() > lines.len() {
            println!("# {} further violating cases not written (same causes)", fresh.len() - lines.len());
        }
        let wall = self.start.elapsed().as_secs_f64();
        let mut cov = std::mem::take(&mut self.coverage);
        cov.insert("states".into(), json!(self.states.max(1)));
        cov.insert("transitions".into(), json!(self.transitions.max(1)));
        cov.insert("traces_validated_against_impl".into(), json!(self.validated));
        cov.insert("evaluations".into(), json!(self.validated.max(1)));
        cov.insert("distinct_outcomes".into(), json!(self.distinct.len()));
        cov.insert("distinct_nontrivial".into(), json!(self.distinct.len()));
        cov.insert("exhaustive".into(), json!(self.exhaustive));
        if self.samples.is_empty() {
            self.samples.push(json!("(no sample recorded)"));
        }
        cov.insert("samples".into(), J::Array(self.samples.clone()));
        cov.insert("counters".into(), json!(self.counters));
        cov.insert(
            "known_findings_met".into(),
            json!(known_met.iter().map(|(k, (n, _))| (k.clone(), *n)).collect::<BTreeMap<_, _>>()),
        );
        cov.insert(
            "violation_causes".into(),
            json!(per_key),
        );
        let ev = json!({
            "property_id": self.property,
            "tier": self.tier.name(),
            "seed": std::env::var("VERIF_SEED").ok().and_then(|s| s.parse::<i64>().ok()).unwrap_or(0),
            "level": "model_checking",
            "coverage": cov,
            "assumptions": self.assumptions,
            "wall_s": wall,
            "violations": fresh.len(),
        });
        let evdir = verif_root().join("evidence");
        let _ = std::fs::create_dir_all(&evdir);
        std::fs::write(
            evdir.join(format!("{}.json", self.property)),
            serde_json::to_string_pretty(&ev).unwrap() + "\n",
        )
        .expect("write evidence");
        println!(
            "{} {}: states={} transitions={} validated={} distinct_outcomes={} exhaustive={} violations={} known={} wall={:.1}s",
            self.property,
            self.tier.name(),
            self.states,
            self.transitions,
            self.validated,
            self.distinct.len(),
            self.exhaustive,
            fresh.len(),
            known_met.len(),
            wall
        );
        if fresh.is_empty() {
            0
        } else {
            1
        }
    }
}

pub fn nthreads() -> usize {
    std::env::var("MC_THREADS")
        .ok()
        .and_then(|s| s.parse().ok())
        .unwrap_or_else(|| std::thread::available_parallelism().map(|n| n.get()).unwrap_or(8))
}

/// Run `f` on every item, on all cores, each worker owning a state built by `init`.
/// Results come back in input order.
pub fn par_map<I: Sync, S, R: Send>(
    items: &[I],
    init: impl Fn() -> S + Sync,
    f: impl Fn(&mut S, &I) -> R + Sync,
) -> Vec<R> {
    let n = nthreads().min(items.len().max(1));
    let next = AtomicUsize::new(0);
    let out: Mutex<Vec<Option<R>>> = Mutex::new((0..items.len()).map(|_| None).collect());
    std::thread::scope(|sc| {
        for _ in 0..n {
            std::thread::Builder::new()
                .stack_size(64 << 20)
                .spawn_scoped(sc, || {
                    let mut st = init();
                    let mut local: Vec<(usize, R)> = Vec::new();
                    loop {
                        let i = next.fetch_add(1, Ordering::Relaxed);
                        if i >= items.len() {
                            break;
                        }
                        local.push((i, f(&mut st, &items[i])));
                        if local.len() >= 256 {
                            let mut o = out.lock().unwrap();
                            for (i, r) in local.drain(..) {
                                o[i] = Some(r);
                            }
                        }
                    }
                    let mut o = out.lock().unwrap();
                    for (i, r) in local.drain(..) {
                        o[i] = Some(r);
                    }
                })
                .unwrap();
        }
    });
    out.into_inner().unwrap().into_iter().map(|r| r.expect("worker died")).collect()
}

static WORKER_EXE: std::sync::OnceLock<PathBuf> = std::sync::OnceLock::new();

/// The binary that worker processes are started from: a private copy of the running executable, made once per
/// run. (A rebuild of the explorer while a check is running replaces `target/debug/mc`; workers started from the
/// path of the running process would then be missing for a moment, or be another version of the code.)
pub fn worker_exe() -> PathBuf {
    WORKER_EXE
        .get_or_init(|| {
            let exe = std::env::current_exe().expect("exe");
            // copies left behind by runs that were killed
            if let Some(dir) = exe.parent() {
                for e in std::fs::read_dir(dir).into_iter().flatten().flatten() {
                    let stale = e.file_name().to_string_lossy().starts_with("mc.worker.")
                        && e.metadata().and_then(|m| m.modified()).ok().and_then(|t| t.elapsed().ok()).map(|d| d.as_secs() > 6 * 3600).unwrap_or(false);
                    if stale {
                        let _ = std::fs::remove_file(e.path());
                    }
                }
            }
            let copy = exe.with_file_name(format!("mc.worker.{}", std::process::id()));
            match std::fs::copy(&exe, &copy) {
                Ok(_) => copy,
                Err(_) => exe,
            }
        })
        .clone()
}

/// removes the private copy made by `worker_exe` (called before the process exits)
pub fn cleanup_worker_exe() {
    if let Some(p) = WORKER_EXE.get() {
        if p.file_name().map(|n| n.to_string_lossy().starts_with("mc.worker.")).unwrap_or(false) {
            let _ = std::fs::remove_file(p);
        }
    }
}
