//! Seed programs shared by the EDIT/STR-driven checks: the repository's integration queries,
//! the ```prql blocks of the book, and a few hand-written ones.

use std::path::Path;

fn walk(dir: &Path, out: &mut Vec<std::path::PathBuf>) {
    if let Ok(rd) = std::fs::read_dir(dir) {
        let mut es: Vec<_> = rd.filter_map(|e| e.ok()).map(|e| e.path()).collect();
        es.sort();
        for p in es {
            if p.is_dir() {
                walk(&p, out);
            } else {
                out.push(p);
            }
        }
    }
}

pub fn integration_queries() -> Vec<(String, String)> {
    let mut files = vec![];
    walk(Path::new(&format!("{}/prqlc/prqlc/tests/integration/queries", crate::report::repo_root())), &mut files);
    files
        .into_iter()
        .filter(|p| p.extension().map(|e| e == "prql").unwrap_or(false))
        .filter_map(|p| std::fs::read_to_string(&p).ok().map(|t| (format!("queries/{}", p.file_name().unwrap().to_string_lossy()), t)))
        .collect()
}

pub fn book_examples() -> Vec<(String, String)> {
    let mut files = vec![];
    let book = format!("{}/web/book/src", crate::report::repo_root());
    walk(Path::new(&book), &mut files);
    let mut out = vec![];
    for f in files.into_iter().filter(|p| p.extension().map(|e| e == "md").unwrap_or(false)) {
        let Ok(txt) = std::fs::read_to_string(&f) else { continue };
        let mut cur: Option<String> = None;
        let mut k = 0;
        for line in txt.lines() {
            match &mut cur {
                None => {
                    if line.trim_start().starts_with("```prql") {
                        cur = Some(String::new());
                    }
                }
                Some(buf) => {
                    if line.trim_start().starts_with("```") {
                        let name = format!("book/{}#{}", f.strip_prefix(&book).unwrap_or(&f).display(), k);
                        k += 1;
                        out.push((name, std::mem::take(buf)));
                        cur = None;
                    } else {
                        buf.push_str(line);
                        buf.push('\n');
                    }
                }
            }
        }
    }
    out
}

pub const HAND: &[&str] = &[
    "from t | select {a, b} | filter a > 1 | sort {-b} | take 3",
    "let f = x y:2 -> x + y\nfrom t | derive {z = f a, w = f y:3 b}",
    "from t | join side:left u (==a) | group {t.b} (aggregate {n = count this, s = sum u.d})",
    "from t | window rolling:3 (sort a | derive s = sum b) | filter s > 1",
    "prql target:sql.postgres\nfrom t | select {x = case [a > 1 => 'big', true => 'small'], d = @2020-01-01, i = 2days}",
    "from t | select {s = f\"{a} and {b}\", r = s\"COALESCE({a}, 0)\", n = null ?? a}",
    "let q = (from t | select {a, b})\nfrom q | append q | remove (from u | select {a, d})",
    "module m { let c = 5 }\nfrom t | derive x = m.c + a | select !{b}",
    "from t | loop (filter a < 3 | select {a = a + 1})",
    "from [{a = 1, b = 'x'}, {a = 2, b = 'y'}] | select {`my col` = a, b} | filter (b | in ['x', 'y'])",
    // literals at the edges of their carriers: largest/smallest floats, a float beyond the range, integer limits
    "from t | select {x = 1e308, y = 5e-324, z = 1.7976931348623157e308, w = 9223372036854775807, v = 0.1}",
    "from t | select {x = 1e400}",
    "from t | select {x = 99999999999999999999, y = -9223372036854775807, s = '\\u{10FFFF}\\x00'}",
];

pub fn all_seeds() -> Vec<(String, String)> {
    let mut v = integration_queries();
    v.extend(book_examples());
    for (i, h) in HAND.iter().enumerate() {
        v.push((format!("hand#{i}"), h.to_string()));
    }
    v
}
