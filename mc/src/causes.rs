//! Cause predicates for known findings of the AP-driven checks: a closed list; a finding is
//! attributed to a known cause only if the program has the triggering shape AND the
//! disagreement has the recorded form. Everything else stays unattributed (= new violation).

use crate::apgen::pipeline_ordered;
use crate::model::*;
use crate::relcheck::{Finding, Kind, Outcome};

fn all_steps<'a>(p: &'a Pipeline, prog: &'a Program, out: &mut Vec<&'a Step>) {
    match &p.src {
        Source::Let(i) => all_steps(&prog.lets[*i].1, prog, out),
        Source::Sub(q) => all_steps(q, prog, out),
        _ => {}
    }
    for s in &p.steps {
        out.push(s);
        if let Step::Group { inner, .. } | Step::Window { inner, .. } = s {
            for i in inner {
                out.push(i);
            }
        }
    }
}

/// the main pipeline flattened through let / sub sources (left spine only)
pub fn spine<'a>(prog: &'a Program) -> Vec<&'a Step> {
    let mut v = vec![];
    if let Some(m) = &prog.main {
        all_steps(m, prog, &mut v);
    }
    v
}

pub fn has<'a>(sp: &[&'a Step], f: impl Fn(&Step) -> bool) -> bool {
    sp.iter().any(|s| f(s))
}

/// position of first step satisfying f
pub fn pos<'a>(sp: &[&'a Step], f: impl Fn(&Step) -> bool) -> Option<usize> {
    sp.iter().position(|s| f(s))
}

pub fn is_sort(s: &Step) -> bool {
    matches!(s, Step::Sort(_))
}
pub fn is_join(s: &Step) -> bool {
    matches!(s, Step::Join { .. })
}

/// some OFFSET in the statement is not preceded by `LIMIT <n>`
pub fn offset_without_limit(sql: &str) -> bool {
    let toks: Vec<&str> = sql.split_whitespace().collect();
    toks.iter().enumerate().any(|(i, t)| *t == "OFFSET" && !(i >= 2 && toks[i - 2] == "LIMIT"))
}

fn helper_name(n: &str) -> bool {
    n.strip_prefix("_expr_").map(|d| !d.is_empty() && d.chars().all(|c| c.is_ascii_digit())).unwrap_or(false)
}

fn parse_names(got: &str) -> Vec<String> {
    serde_json::from_str::<Vec<String>>(got).unwrap_or_default()
}

/// frames before each step of the main pipeline (left spine of lets/subs not expanded)
fn main_frames(p: &Program) -> Vec<(Frame, &Step)> {
    let mut out = vec![];
    if let Some(m) = &p.main {
        let mut f = source_frame(&m.src, None, p);
        for s in &m.steps {
            out.push((f.clone(), s));
            f = step_frame(s, &f, p);
        }
    }
    out
}

/// a derive/select alias that re-uses the name of a column already in the frame
fn shadowing_alias(p: &Program) -> bool {
    main_frames(p).iter().any(|(f, s)| match s {
        Step::Derive(items) => items.iter().any(|it| it.alias.as_ref().map(|a| f.cols.iter().any(|c| c.name.as_ref() == Some(a))).unwrap_or(false)),
        Step::Select(items) => items.iter().any(|it| {
            it.alias.as_ref().map(|a| f.cols.iter().any(|c| c.name.as_ref() == Some(a)) && !matches!(&it.e, E::Col(i) if f.named(*i) == Some(a.as_str()))).unwrap_or(false)
        }),
        _ => false,
    })
}

/// names of columns used as sort keys anywhere on the spine
fn sort_key_names(p: &Program) -> Vec<String> {
    fn walk(pl: &Pipeline, prog: &Program, out: &mut Vec<String>) {
        match &pl.src {
            Source::Let(i) => walk(&prog.lets[*i].1, prog, out),
            Source::Sub(q) => walk(q, prog, out),
            _ => {}
        }
        let mut f = source_frame(&pl.src, None, prog);
        for s in &pl.steps {
            if let Step::Sort(keys) = s {
                for (_, e) in keys {
                    let mut cs = vec![];
                    e.cols(&mut cs);
                    for c in cs {
                        if let Some(n) = f.named(c) {
                            out.push(n.to_string());
                        }
                    }
                }
            }
            f = step_frame(s, &f, prog);
        }
    }
    let mut out = vec![];
    if let Some(m) = &p.main {
        walk(m, p, &mut out);
    }
    out
}

fn aliases_after_sort(p: &Program) -> Vec<String> {
    let sp = spine(p);
    let Some(s0) = pos(&sp, is_sort) else { return vec![] };
    let mut out = vec![];
    for s in &sp[s0 + 1..] {
        if let Step::Derive(items) | Step::Select(items) = s {
            for it in items {
                if let Some(a) = &it.alias {
                    out.push(a.clone());
                }
            }
        }
    }
    out
}

pub fn c01_key(f: &Finding, p: &Program, _o: &Outcome) -> Option<String> {
    let sp = spine(p);
    let has_append = has(&sp, |s| matches!(s, Step::Append(_)));
    match f.kind {
        Kind::EngineReject => {
            if f.got.contains("no such column") && f.sql.contains("ORDER BY") {
                // a sort in effect on the left input of a later join
                if let (Some(s), Some(j)) = (pos(&sp, is_sort), sp.iter().rposition(|s| is_join(s))) {
                    if s < j {
                        return Some("orderby-names-relation-out-of-scope-after-join".into());
                    }
                }
            }
            if f.got.contains("near \"OFFSET\"") && has(&sp, |s| matches!(s, Step::Take(Some(l), None) if *l > 1)) && offset_without_limit(&f.sql) {
                return Some("offset-without-limit".into());
            }
            // two columns of one bare name at a sub-query split: the second is projected `rel.a AS _expr_N`, and the
            // ORDER BY of that SELECT names it `rel._expr_N`, a column the relation does not have (pinned by the
            // snapshot of test_sorts_03)
            if let Some(rest) = f.got.split("no such column: ").nth(1) {
                let qualified: String = rest.chars().take_while(|c| c.is_alphanumeric() || *c == '_' || *c == '.').collect();
                if let Some((rel, helper)) = qualified.split_once("._expr_") {
                    let helper = format!("_expr_{helper}");
                    let order_by_names_it = f.sql.split("ORDER BY").skip(1).any(|o| o.split(')').next().unwrap_or("").contains(&format!("{rel}.{helper}")));
                    if !rel.is_empty() && f.sql.contains(&format!(" AS {helper}")) && order_by_names_it {
                        return Some("orderby-qualifies-renamed-column-with-its-relation".into());
                    }
                }
            }
            if f.got.contains("no such column: _expr_") && f.sql.contains("ORDER BY") && f.sql.contains(".*") {
                return Some("orderby-helper-undefined-for-wildcard-column".into());
            }
            // a group key that is a constant is written `GROUP BY 1`, which SQL reads as "the first column of the
            // SELECT" — an aggregate once the constant itself is no longer selected
            if f.got.contains("aggregate functions are not allowed in the GROUP BY") && f.sql.contains("GROUP BY 1") {
                return Some("constant-group-key-emitted-as-position".into());
            }
            if f.got.contains("do not have the same number of result columns") && has_append {
                return Some("append-branches-projected-differently".into());
            }
            // an alias that re-used a column name is referred to by a helper name no SELECT defines
            if f.got.contains("no such column: _expr_") && shadowing_alias(p) {
                return Some("column-lost-when-alias-reuses-existing-name".into());
            }
            None
        }
        Kind::Arity => {
            // an exclusion over a relation known only through its wildcard, then a second exclusion (written, or the
            // implicit one of `group`): the second forgets the first (C16 records the RQ side of it), the statement
            // reads `* EXCLUDE (b)` and the column excluded first is back
            {
                // (either order: `group` excludes its keys from `this` implicitly)
                let ex: Vec<bool> = sp.iter().filter(|s| matches!(s, Step::SelectExcept(_) | Step::Group { .. })).map(|s| matches!(s, Step::SelectExcept(_))).collect();
                if ex.len() >= 2 && ex.iter().any(|x| *x) {
                    let later = true;
                    let got_n = parse_names(&f.got).len();
                    let exp_n = serde_json::from_str::<Vec<Option<String>>>(&f.expected).map(|v| v.len()).unwrap_or(0);
                    if later && got_n > exp_n && (f.sql.contains("* EXCLUDE (") || f.sql.contains("* EXCEPT (")) {
                        return Some("second-exclusion-over-open-relation-forgets-the-first".into());
                    }
                }
            }
            // a grouped aggregate that takes the name of its *computed* key (`select {x = a + 1, b} | group {x}
            // (aggregate {x = sum b})`): the projection keeps one item per alias, the aggregate is dropped
            {
            let got = parse_names(&f.got);
            let exp: Vec<Option<String>> = serde_json::from_str(&f.expected).unwrap_or_default();
            if got.len() + 1 == exp.len() {
                let agg_named_like_computed_key = main_frames(p).iter().any(|(fr, s)| match s {
                    Step::Group { keys, inner } => inner.iter().any(|x| matches!(x, Step::Aggregate(a) if a.iter().any(|(n, _, _)| keys.iter().any(|&k| fr.named(k) == Some(n.as_str()) && fr.cols[k].input.is_none())))),
                    _ => false,
                });
                if agg_named_like_computed_key {
                    return Some("aggregate-named-like-its-computed-key-dropped".into());
                }
            }
            }
            let got = parse_names(&f.got);
            let exp: Vec<Option<String>> = serde_json::from_str(&f.expected).unwrap_or_default();
            let exp_n = exp.len();
            if got.len() > exp_n {
                // `select !{…}` over a relation known only through its wildcard, for a dialect without `* EXCLUDE`:
                // the exclusion is dropped (`SELECT * FROM t`)
                let open_except = main_frames(p).iter().any(|(fr, s)| matches!(s, Step::SelectExcept(_)) && !fr.open.is_empty());
                if open_except && f.sql.contains('*') && !f.sql.contains("EXCLUDE") && !f.sql.contains("EXCEPT") {
                    return Some("exclusion-over-open-relation-ignored-without-exclude-facility".into());
                }
                // columns the compiler carries for its own use (generated helpers, hidden sort keys, a group key
                // listed next to the wildcard that already holds it — SQLite labels the repeat `name:1`) come
                // out of a final `SELECT *`
                let keys = sort_key_names(p);
                let mut exp_names: Vec<String> = exp.iter().flatten().cloned().collect();
                let mut extras = 0;
                for n in &got {
                    if let Some(i) = exp_names.iter().position(|e| e == n) {
                        exp_names.remove(i);
                    } else if helper_name(n) || n.starts_with("_expr_") || n.contains(':') || keys.contains(n) || exp.iter().flatten().any(|e| e == n) {
                        // (the last case: a name of the frame once more than the frame has it — the explicit key
                        // next to the wildcard that holds it, seen without SQLite's `:1` label)
                        extras += 1;
                    }
                }
                if extras >= got.len() - exp_n && f.sql.contains('*') {
                    return Some("helper-column-leaks-through-wildcard".into());
                }
            }
            if got.len() < exp_n {
                // `* EXCLUDE (a)` / `* EXCEPT (a)` removes a carried column by name — and with it a column of the
                // frame that has the same name
                for kw in ["EXCLUDE (", "EXCEPT ("] {
                    if let Some(i) = f.sql.find(kw) {
                        let list = f.sql[i + kw.len()..].split(')').next().unwrap_or("");
                        if list.split(',').map(|x| x.trim().trim_matches('"').trim_matches('`')).any(|n| exp.iter().flatten().any(|e| e == n)) {
                            return Some("wildcard-exclusion-by-name-drops-same-named-column".into());
                        }
                    }
                }
                // an unnamed computed column (`select {a, a + 1}`) is gone after a later `group … (… take n)`
                let fr = main_frames(p);
                let unnamed_then_group_take = fr.iter().enumerate().any(|(k, (_, s))| {
                    matches!(s, Step::Select(items) if items.iter().any(|it| it.alias.is_none() && !matches!(it.e, E::Col(_))))
                        && fr[k + 1..].iter().any(|(_, s2)| matches!(s2, Step::Group { inner, .. } if !inner.iter().any(|x| matches!(x, Step::Aggregate(_)))))
                });
                if unnamed_then_group_take {
                    return Some("unnamed-column-dropped-by-group-take".into());
                }
                if shadowing_alias(p) {
                    return Some("column-lost-when-alias-reuses-existing-name".into());
                }
                // `select {x = .., x}`-style: the same name listed twice in one select
                let dup_in_select = main_frames(p).iter().any(|(fr, s)| match s {
                    Step::Select(items) => {
                        let names: Vec<Option<String>> = items.iter().map(|it| item_col(it, fr).name).collect();
                        names.iter().enumerate().any(|(i, n)| n.is_some() && names[..i].contains(n))
                    }
                    _ => false,
                });
                if dup_in_select {
                    return Some("same-name-twice-in-select-merged".into());
                }
            }
            None
        }
        Kind::Rows => {
            // `take` followed by the DISTINCT idiom `group {all columns} (take 1)`
            let distinct_after_take = {
                let t = sp.iter().position(|s| matches!(s, Step::Take(..)));
                let d = sp.iter().rposition(|s| matches!(s, Step::Group { inner, .. } if matches!(inner.as_slice(), [Step::Take(Some(1), Some(1))])));
                matches!((t, d), (Some(t), Some(d)) if t < d)
            };
            if distinct_after_take && f.sql.contains("DISTINCT") {
                return Some("take-then-distinct-merged-into-one-select".into());
            }
            // `select {x = .., x}`-style: the same name listed twice in one select (seen as wrong values when the
            // arity happens to match)
            let dup_in_select = main_frames(p).iter().any(|(fr, s)| match s {
                Step::Select(items) => {
                    let names: Vec<Option<String>> = items.iter().map(|it| item_col(it, fr).name).collect();
                    names.iter().enumerate().any(|(i, n)| n.is_some() && names[..i].contains(n))
                }
                _ => false,
            });
            if dup_in_select && !f.msg.contains(crate::relcheck::MERGED_MARK) {
                return Some("same-name-twice-in-select-merged".into());
            }
            // an alias re-using a column name of a relation known only through its wildcard, then a group whose
            // pipeline does not aggregate: the frame is key ++ rest, the statement returns `*` first (same values,
            // other column order)
            if shadowing_alias(p) && f.sql.starts_with("SELECT *,") && has(&sp, |s| matches!(s, Step::Group { inner, .. } if !inner.iter().any(|x| matches!(x, Step::Aggregate(_) | Step::Take(..))))) {
                if let Some((exp, got)) = &f.rows {
                    let sorted = |r: &Vec<crate::model::V>| { let mut v: Vec<String> = r.iter().map(|x| x.show()).collect(); v.sort(); v };
                    if exp.len() == got.len() && exp.iter().zip(got).all(|(a, b)| sorted(a) == sorted(b)) {
                        return Some("group-key-not-first-behind-wildcard-with-shadowing-alias".into());
                    }
                }
            }
            // an alias re-using a column name next to a wildcard: the wildcard's column and a helper come back
            if shadowing_alias(p) && f.sql.contains("_expr_") && f.sql.contains("SELECT *") {
                return Some("column-lost-when-alias-reuses-existing-name".into());
            }
            // `take` on the order inherited from a sorted let-table, then a new sort, then another take: both
            // takes end up in one SELECT under the later ORDER BY, the first selection is lost
            {
                let steps: Vec<&Step> = p.main.iter().flat_map(|m| m.steps.iter()).collect();
                let inherited = p.main.as_ref().map(|m| match &m.src {
                    Source::Let(i) => pipeline_ordered(&p.lets[*i].1, p),
                    _ => false,
                }).unwrap_or(false);
                let t1 = steps.iter().position(|s| matches!(s, Step::Take(..)));
                if let (true, Some(t1)) = (inherited, t1) {
                    let own_sort_before = steps[..t1].iter().any(|s| is_sort(s));
                    let later = steps[t1 + 1..].iter().position(|s| is_sort(s)).map(|k| t1 + 1 + k);
                    if let (false, Some(s2)) = (own_sort_before, later) {
                        if steps[s2 + 1..].iter().any(|s| matches!(s, Step::Take(..))) && f.sql.matches("LIMIT").count() + f.sql.matches("OFFSET").count() <= 1 {
                            return Some("take-on-inherited-order-merged-with-take-after-later-sort".into());
                        }
                    }
                }
            }
            // ungrouped aggregate applied to the single row of an earlier ungrouped aggregate
            let top: Vec<&Step> = p.main.iter().flat_map(|m| m.steps.iter()).collect();
            let first_agg = top.iter().position(|s| matches!(s, Step::Aggregate(_)));
            if let Some(i) = first_agg {
                if top[i + 1..].iter().any(|s| matches!(s, Step::Aggregate(a) if a.iter().all(|(_, g, _)| matches!(g, Agg::CountThis | Agg::Count)))) {
                    return Some("aggregate-of-aggregate-loses-inner-aggregation".into());
                }
                // the same defect seen through its SQL: an ungrouped aggregate none of whose results is read
                // later is written as `SELECT NULL FROM …` — one row per input row instead of one row
                if i + 1 < top.len() && f.sql.contains("(SELECT NULL FROM ") {
                    return Some("aggregate-of-aggregate-loses-inner-aggregation".into());
                }
            }
            // two columns of different inputs selected under one bare name, then one of them excluded by its
            // qualified name: the other one is gone as well (`SELECT NULL FROM …`)
            let dup_then_except = {
                let fr = main_frames(p);
                fr.iter().enumerate().any(|(k, (f0, s))| match s {
                    Step::Select(items) => {
                        let names: Vec<(&str, &Option<String>)> = items.iter().filter_map(|it| match (&it.alias, &it.e) {
                            (None, E::Col(i)) => f0.named(*i).map(|n| (n, &f0.cols[*i].input)),
                            _ => None,
                        }).collect();
                        names.iter().enumerate().any(|(i, (n, inp))| names[..i].iter().any(|(m, jnp)| m == n && jnp != inp)) && fr[k + 1..].iter().any(|(_, s2)| matches!(s2, Step::SelectExcept(_)))
                    }
                    _ => false,
                })
            };
            if dup_then_except && f.sql.contains("SELECT NULL FROM") {
                return Some("column-unreachable-after-select-of-two-same-named-columns".into());
            }
            if has_append {
                return Some("append-branches-projected-differently".into());
            }
            let keys = sort_key_names(p);
            if aliases_after_sort(p).iter().any(|a| keys.contains(a)) {
                return Some("sort-key-name-captured-by-later-alias".into());
            }
            None
        }
        _ => None,
    }
}

pub fn order_key(_f: &Finding, _p: &Program, _o: &Outcome) -> Option<String> {
    None
}

pub fn names_key(f: &Finding, p: &Program, _o: &Outcome) -> Option<String> {
    if f.kind != Kind::Names {
        return None;
    }
    let got = parse_names(&f.got);
    let exp: Vec<Option<String>> = serde_json::from_str(&f.expected).unwrap_or_default();
    // dialects with `* EXCLUDE`: an exclusion over two joined relations of which one is only known through its
    // wildcard is written `SELECT u.* EXCLUDE (…), t.b` — the wildcard first, whatever the frame order
    // an aggregate named like its key (two columns of one name, the key un-named by the model) on top of an
    // `append`: the frame takes the bottom's name for the un-named column, SQL labels a UNION by its first branch
    if f.sql.contains(" UNION ALL ") && main_frames(p).iter().any(|(fr, s)| matches!(s, Step::Group { keys, inner } if inner.iter().any(|x| matches!(x, Step::Aggregate(a) if a.iter().any(|(n, _, _)| keys.iter().any(|&k| fr.named(k) == Some(n.as_str())))))) ) {
        return Some("append-under-aggregate-named-like-its-key-labelled-by-first-branch".into());
    }
    // the branches of a UNION ALL written with different numbers of columns (recorded for the executed dialects as
    // a statement the engine rejects): the static column list of such a statement is that of its first branch
    if let Some((top, bottom)) = f.sql.split_once(" UNION ALL ") {
        let items = |sel: &str| -> usize {
            let body = sel.rsplit("SELECT ").next().unwrap_or("");
            let body = body.split(" FROM ").next().unwrap_or("");
            let mut depth = 0i32;
            let mut n = 1;
            for c in body.chars() {
                match c {
                    '(' => depth += 1,
                    ')' => depth -= 1,
                    ',' if depth == 0 => n += 1,
                    _ => {}
                }
            }
            n
        };
        let top_sel = top.rsplit_once("SELECT ").map(|x| format!("SELECT {}", x.1)).unwrap_or_default();
        let bottom_sel = bottom.split(" UNION ALL ").next().unwrap_or("");
        if !top_sel.contains('*') && !bottom_sel.contains('*') && items(&top_sel) != items(bottom_sel) {
            return Some("append-branches-projected-differently".into());
        }
    }
    // (static column lists) the frame's values in the wildcard's column order, see the C01 finding of the same name
    if shadowing_alias(p) && f.sql.contains('*') && has(&spine(p), |s| matches!(s, Step::Group { inner, .. } if !inner.iter().any(|x| matches!(x, Step::Aggregate(_) | Step::Take(..))))) {
        let mut a: Vec<String> = got.clone();
        let mut b: Vec<String> = exp.iter().map(|e| e.clone().unwrap_or_default()).collect();
        a.sort();
        b.sort();
        if a == b || got.len() == exp.len() {
            return Some("group-key-not-first-behind-wildcard-with-shadowing-alias".into());
        }
    }
    if (f.sql.contains(".* EXCLUDE (") || f.sql.contains(".* EXCEPT (")) && exp.iter().all(|e| e.is_some()) {
        let mut a: Vec<String> = got.clone();
        let mut b: Vec<String> = exp.iter().map(|e| e.clone().unwrap_or_default()).collect();
        a.sort();
        b.sort();
        let star_first = f.sql.rsplit("SELECT ").next().map(|x| { let first = x.split(',').next().unwrap_or(""); first.contains(".* EXCLUDE (") || first.contains(".* EXCEPT (") }).unwrap_or(false);
        if a == b && star_first {
            return Some("excluded-wildcard-written-in-front-of-earlier-columns".into());
        }
    }
    if got.len() != exp.len() {
        return None;
    }
    // (0) a column of the frame comes back as `NULL`: two same-named columns selected, then one excluded
    if got.iter().any(|g| g == "NULL") && f.sql.contains("SELECT NULL") {
        let fr = main_frames(p);
        let dup_then_except = fr.iter().enumerate().any(|(k, (f0, s))| match s {
            Step::Select(items) => {
                let names: Vec<(&str, &Option<String>)> = items.iter().filter_map(|it| match (&it.alias, &it.e) {
                    (None, E::Col(i)) => f0.named(*i).map(|n| (n, &f0.cols[*i].input)),
                    _ => None,
                }).collect();
                names.iter().enumerate().any(|(i, (n, inp))| names[..i].iter().any(|(m, jnp)| m == n && jnp != inp)) && fr[k + 1..].iter().any(|(_, s2)| matches!(s2, Step::SelectExcept(_)))
            }
            _ => false,
        });
        if dup_then_except {
            return Some("column-unreachable-after-select-of-two-same-named-columns".into());
        }
    }
    // an unnamed computed column is gone after a later `group … (… take n)`; next to a wildcard the arity can
    // coincide and the names shift instead
    {
        let fr = main_frames(p);
        let unnamed_then_group_take = fr.iter().enumerate().any(|(k, (_, s))| {
            matches!(s, Step::Select(items) if items.iter().any(|it| it.alias.is_none() && !matches!(it.e, E::Col(_))))
                && fr[k + 1..].iter().any(|(_, s2)| matches!(s2, Step::Group { inner, .. } if !inner.iter().any(|x| matches!(x, Step::Aggregate(_)))))
        });
        if unnamed_then_group_take && f.sql.contains(".*") {
            return Some("unnamed-column-dropped-by-group-take".into());
        }
    }
    // the same name listed twice in one select
    let dup_in_select = main_frames(p).iter().any(|(fr, s)| match s {
        Step::Select(items) => {
            let names: Vec<Option<String>> = items.iter().map(|it| item_col(it, fr).name).collect();
            names.iter().enumerate().any(|(i, n)| n.is_some() && names[..i].contains(n))
        }
        _ => false,
    });
    if dup_in_select {
        return Some("same-name-twice-in-select-merged".into());
    }
    // an alias that re-used a column name, and a final `SELECT *` over the sub-query that holds both
    if shadowing_alias(p) && (f.sql.contains("SELECT *") || (f.sql.contains("DISTINCT ON") && f.sql.contains('*'))) {
        return Some("alias-reusing-existing-name-emitted-under-helper-name".into());
    }
    // every misnamed column carries a generated helper name
    let wrong: Vec<usize> = (0..got.len()).filter(|&i| exp[i].as_ref().map(|n| n != &got[i]).unwrap_or(false)).collect();
    if wrong.is_empty() || !wrong.iter().all(|&i| helper_name(&got[i])) {
        return None;
    }
    // (1) each misnamed column shares its bare name with another column of the frame
    if wrong.iter().all(|&i| (0..exp.len()).any(|j| j != i && (exp[j] == exp[i] || Some(&got[j]) == exp[i].as_ref()))) {
        return Some("same-named-columns-of-two-relations-one-renamed".into());
    }
    // (2) the misnamed column is an alias that re-used an existing column name
    if shadowing_alias(p) {
        return Some("alias-reusing-existing-name-emitted-under-helper-name".into());
    }
    None
}

fn win_fns(p: &Program) -> Vec<WinFn> {
    fn in_e(e: &E, out: &mut Vec<WinFn>) {
        match e {
            E::Win(w, _) => out.push(*w),
            E::Bin(_, l, r) => {
                in_e(l, out);
                in_e(r, out)
            }
            E::IsNull(x) => in_e(x, out),
            E::Call(_, a) => a.iter().for_each(|x| in_e(x, out)),
            _ => {}
        }
    }
    let mut out = vec![];
    for s in spine(p) {
        match s {
            Step::Derive(items) | Step::Select(items) => items.iter().filter(|i| !matches!(i.alias.as_deref(), Some("p") | Some("pc"))).for_each(|i| in_e(&i.e, &mut out)),
            Step::Filter(e) => in_e(e, &mut out),
            Step::Sort(k) => k.iter().for_each(|(_, e)| in_e(e, &mut out)),
            _ => {}
        }
    }
    // steps nested in window{} inside group{} are one level deeper
    fn deep(steps: &[Step], out: &mut Vec<WinFn>, f: &dyn Fn(&E, &mut Vec<WinFn>)) {
        for s in steps {
            match s {
                Step::Group { inner, .. } | Step::Window { inner, .. } => deep(inner, out, f),
                // (the frame-less companion aggregates `p`, `pc` of C04's placements are not the subject)
                Step::Derive(items) | Step::Select(items) => items.iter().filter(|i| !matches!(i.alias.as_deref(), Some("p") | Some("pc"))).for_each(|i| f(&i.e, out)),
                Step::Filter(e) => f(e, out),
                Step::Sort(k) => k.iter().for_each(|(_, e)| f(e, out)),
                _ => {}
            }
        }
    }
    if let Some(m) = &p.main {
        deep(&m.steps, &mut out, &in_e);
    }
    out.sort_by_key(|w| *w as u8);
    out.dedup();
    out
}

fn win_in_sort_key(p: &Program) -> bool {
    fn deep(steps: &[Step]) -> bool {
        steps.iter().any(|s| match s {
            Step::Group { inner, .. } | Step::Window { inner, .. } => deep(inner),
            Step::Sort(k) => k.iter().any(|(_, e)| e.has_win()),
            _ => false,
        })
    }
    p.main.as_ref().map(|m| deep(&m.steps)).unwrap_or(false)
}

pub fn window_key(f: &Finding, p: &Program, _o: &Outcome) -> Option<String> {
    let fns = win_fns(p);
    if fns.is_empty() {
        return None;
    }
    if win_in_sort_key(p) && matches!(f.kind, Kind::Rows | Kind::EngineReject | Kind::Order) {
        if f.kind != Kind::EngineReject || f.got.contains("misuse of window function") || f.got.contains("misuse of aggregate") {
            return Some("window-function-in-sort-key-emitted-without-over".into());
        }
    }
    match f.kind {
        Kind::Rows => {
            if fns.iter().all(|w| matches!(w, WinFn::First | WinFn::Last)) {
                return Some("first-last-ignore-window-frame".into());
            }
            if fns == vec![WinFn::Sum] {
                // every differing cell is (reference 0, implementation NULL); for a windowed filter
                // the rows kept differ accordingly
                if let Some((exp, got)) = &f.rows {
                    let derive = exp.len() == got.len();
                    if derive {
                        let mut e2 = exp.clone();
                        let mut g2 = got.clone();
                        e2.sort_by(|a, b| row_cmp(a, b));
                        g2.sort_by(|a, b| row_cmp(a, b));
                        // replace reference 0 by NULL in the window column and compare again
                        let widx = p.main.as_ref().and_then(|m| pipeline_frame(m, p).cols.iter().position(|c| c.name.as_deref() == Some("w")));
                        let fix = |rows: &mut Vec<Vec<V>>| {
                            for r in rows.iter_mut() {
                                // only the window column (`w`) is rewritten, wherever the final frame puts it
                                let k = widx.unwrap_or(r.len().saturating_sub(1));
                                if let Some(l) = r.get_mut(k) {
                                    if matches!(l, V::Int(0)) || matches!(l, V::Real(x) if *x == 0.0) {
                                        *l = V::Null;
                                    }
                                }
                            }
                            rows.sort_by(|a, b| row_cmp(a, b));
                        };
                        fix(&mut e2);
                        fix(&mut g2);
                        if e2.len() == g2.len() && e2.iter().zip(&g2).all(|(a, b)| row_eq(a, b)) {
                            return Some("window-sum-of-no-values-is-null".into());
                        }
                    }
                }
            }
            None
        }
        _ => None,
    }
}

pub fn c06_key(f: &Finding, p: &Program, _o: &Outcome) -> Option<String> {
    match f.kind {
        Kind::Panic => {
            if f.msg.contains("lowering.rs") && f.msg.contains("cannot find cid by id") && !p.lets.is_empty() {
                return Some("panic-inferred-column-through-named-relation".into());
            }
            None
        }
        Kind::CompileReject => {
            // a function parameter with the name of a column in scope
            let clash = p.funcs.iter().any(|f| f.params.iter().any(|n| n == "x"));
            if clash && f.msg.contains("Ambiguous name") {
                return Some("function-parameter-named-like-column-is-ambiguous".into());
            }
            // an explicit select lists two columns of different inputs under one bare name (`select {t.a, r.a}`):
            // the first of them can no longer be referred to by its qualified name
            if f.msg.contains("Unknown name `") {
                let dup_select = main_frames(p).iter().any(|(fr, s)| match s {
                    Step::Select(items) => {
                        let names: Vec<(&str, &Option<String>)> = items.iter().filter_map(|it| match (&it.alias, &it.e) {
                            (None, E::Col(i)) => fr.named(*i).map(|n| (n, &fr.cols[*i].input)),
                            _ => None,
                        }).collect();
                        names.iter().enumerate().any(|(i, (n, inp))| names[..i].iter().any(|(m, jnp)| m == n && jnp != inp))
                    }
                    _ => false,
                });
                if dup_select {
                    return Some("qualified-name-unknown-after-select-of-two-same-named-columns".into());
                }
            }
            // a named relation over (relation literal ⋈ open table): a column of the open table cannot be inferred
            // through the name (`Table _literal_N does not have wildcard`)
            if f.msg.contains("does not have wildcard") {
                let lit_join = p.lets.iter().any(|(_, lp)| matches!(lp.src, Source::Lit(..)) && lp.steps.iter().any(|s| matches!(s, Step::Join { right: Source::Table(_), .. })));
                if lit_join {
                    return Some("column-of-open-table-not-inferred-through-named-relation-over-literal".into());
                }
            }
            // an alias defined in a tuple and a same-named column of a named relation used in that tuple
            if f.msg.contains("Ambiguous name") && !p.lets.is_empty() {
                let same_tuple = main_frames(p).iter().any(|(fr, s)| {
                    let (aliases, used): (Vec<String>, Vec<usize>) = match s {
                        Step::Aggregate(a) => (a.iter().map(|x| x.0.clone()).collect(), a.iter().filter_map(|x| x.2).collect()),
                        Step::Derive(it) | Step::Select(it) => {
                            let mut u = vec![];
                            it.iter().for_each(|i| i.e.cols(&mut u));
                            (it.iter().filter_map(|i| i.alias.clone()).collect(), u)
                        }
                        _ => (vec![], vec![]),
                    };
                    used.iter().any(|&c| fr.named(c).map(|n| aliases.iter().any(|a| a == n)).unwrap_or(false))
                });
                if same_tuple {
                    return Some("alias-and-same-named-column-of-named-relation-in-one-tuple-ambiguous".into());
                }
            }
            None
        }
        Kind::Arity => {
            let got = parse_names(&f.got);
            let exp: Vec<Option<String>> = serde_json::from_str(&f.expected).unwrap_or_default();
            for (_, lp) in &p.lets {
                let lf = pipeline_frame(lp, p);
                let has_join = lp.steps.iter().any(is_join);
                // (L1) a named relation that still has the wildcards of two joined inputs
                if has_join && lf.open.len() >= 1 && lf.inputs.len() >= 2 && got.len() > exp.len() {
                    return Some("named-relation-over-open-join-repeats-columns".into());
                }
                // (L2) a named relation whose frame holds the same bare column name twice
                let names: Vec<&String> = lf.cols.iter().filter_map(|c| c.name.as_ref()).collect();
                let dup = names.iter().enumerate().any(|(i, n)| names[..i].contains(n));
                if dup && got.len() < exp.len() {
                    return Some("named-relation-with-duplicate-column-names-loses-column".into());
                }
            }
            None
        }
        Kind::Order | Kind::Rows => {
            let keys = sort_key_names(p);
            if aliases_after_sort(p).iter().any(|a| keys.contains(a)) {
                return Some("sort-key-name-captured-by-later-alias".into());
            }
            // sorted named relation in which the sort key's bare name occurs twice
            for (_, lp) in &p.lets {
                let lf = pipeline_frame(lp, p);
                let names: Vec<&String> = lf.cols.iter().filter_map(|c| c.name.as_ref()).collect();
                if lp.steps.iter().any(is_sort) && keys.iter().any(|k| names.iter().filter(|n| **n == k).count() >= 2) {
                    return Some("sort-key-of-named-relation-resolved-to-same-named-column".into());
                }
            }
            None
        }
        _ => None,
    }
}
