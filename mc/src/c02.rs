//! C02 — operator precedence, associativity, null and literal folding survive to SQL.
//! EX driver: every well-typed expression tree up to a depth bound, printed with the *minimal*
//! parentheses the documented precedence table requires.
//!
//! Oracle layer 1 (structure): the expected SQL of a tree is assembled from prqlc's own SQL for
//! each *atomic* application with every operand parenthesised; SQLite evaluates
//! `compiled IS expected` on the full cross product of the operand domain. Operator meaning cancels.
//! Oracle layer 2 (meaning): each atomic application against a table of the documented semantics.
//! Oracle layer 3 (dialects without an engine): compiled and expected text parsed by sqlparser with
//! the dialect's own grammar; the trees must be equal after dropping parentheses nodes.

use crate::engine::{self, Ctx};
use crate::iso::guard;
use crate::relcheck::{all_dialects, dname, err_text, opts};
use crate::report::{fnv, par_map, Run, Tier};
use prqlc::sql::Dialect;
use rusqlite::Connection;
use serde_json::{json, Value as J};
use std::collections::BTreeMap;

#[derive(Clone, Copy, PartialEq, Eq, Debug)]
pub enum Ty {
    Num,
    Bool,
}

#[derive(Clone, Debug, PartialEq)]
pub enum X {
    /// leaf column (name assigned by position)
    Col(Ty, usize),
    Lit(Ty, &'static str),
    Null,
    Un(&'static str, Box<X>),
    Bin(&'static str, Box<X>, Box<X>),
    Case(Vec<(X, X)>),
    In(Box<X>, i64, i64),
    /// a function of one operand, by key into FN1 (`abs`, `log2`, `inlist`)
    Abs(Box<X>),
    Fn1(&'static str, Box<X>),
    /// the literal -1 reaching its place of use through a column derived one step earlier (`derive {kneg = -1}`)
    NamedNeg,
}

/// (key, PRQL text with § for the fully parenthesised operand, result type)
pub const FN1: &[(&str, &str, Ty)] = &[("log2", "(math.log 2 §)", Ty::Num), ("inlist", "(§ | in [1, 2])", Ty::Bool)];

fn fn1(key: &str) -> &'static (&'static str, &'static str, Ty) {
    FN1.iter().find(|f| f.0 == key).expect("fn1 key")
}

pub const ARITH: &[&str] = &["**", "*", "/", "//", "%", "+", "-"];
pub const CMP: &[&str] = &["==", "!=", "<", "<=", ">", ">="];
pub const LOGIC: &[&str] = &["&&", "||"];
const NUM_COLS: [&str; 4] = ["x", "y", "z", "w"];
const BOOL_COLS: [&str; 3] = ["p", "q", "r"];

/// documented precedence (operators.md): smaller binds tighter
fn prec(op: &str) -> u8 {
    match op {
        "**" => 4,
        "*" | "/" | "//" | "%" => 5,
        "+" | "-" => 6,
        "==" | "!=" | "<" | "<=" | ">" | ">=" | "~=" => 7,
        "??" => 8,
        "&&" => 9,
        "||" => 10,
        _ => 0,
    }
}

fn right_assoc(op: &str) -> bool {
    op == "**"
}

struct Cols {
    n: usize,
    b: usize,
}

/// PRQL source with minimal parentheses
fn pr_min(x: &X) -> String {
    fn operand(x: &X, parent: &str, right_side: bool) -> String {
        let s = pr_min(x);
        let need = match x {
            X::Bin(op, ..) => {
                let (pc, pp) = (prec(op), prec(parent));
                pc > pp || (pc == pp && (right_side != right_assoc(parent)))
            }
            // a unary operand binds tighter than any binary operator: no parentheses
            X::Un(..) => false,
            X::Lit(_, l) => l.starts_with('-') && false,
            _ => false,
        };
        if need {
            format!("({s})")
        } else {
            s
        }
    }
    match x {
        X::Col(Ty::Num, i) => NUM_COLS[*i].to_string(),
        X::Col(Ty::Bool, i) => BOOL_COLS[*i].to_string(),
        X::Lit(_, l) => l.to_string(),
        X::Null => "null".into(),
        X::Un(op, e) => match &**e {
            X::Bin(..) => format!("{op}({})", pr_min(e)),
            // `--x` would be fine for the grammar, but keep one space-free spelling
            X::Un(..) => format!("{op}({})", pr_min(e)),
            X::Lit(_, l) if l.starts_with('-') => format!("{op}({l})"),
            _ => format!("{op}{}", pr_min(e)),
        },
        X::Bin(op, l, r) => format!("{} {op} {}", operand(l, op, false), operand(r, op, true)),
        X::Case(arms) => format!("(case [{}])", arms.iter().map(|(c, v)| format!("{} => {}", pr_min(c), pr_min(v))).collect::<Vec<_>>().join(", ")),
        X::In(e, lo, hi) => format!("({} | in {lo}..{hi})", pr_full(e)),
        X::Abs(e) => format!("(math.abs {})", pr_full(e)),
        X::Fn1(k, e) => fn1(k).1.replace('§', &pr_full(e)),
        X::NamedNeg => "kneg".into(),
    }
}

/// PRQL source with every sub-expression parenthesised (used for function-call arguments, whose
/// parenthesisation is mandatory anyway)
fn pr_full(x: &X) -> String {
    match x {
        X::Col(..) | X::Lit(..) | X::Null | X::NamedNeg => {
            let s = pr_min(x);
            if s.starts_with('-') {
                format!("({s})")
            } else {
                s
            }
        }
        _ => format!("({})", pr_min(x)),
    }
}

fn count_cols(x: &X, c: &mut Cols) {
    match x {
        X::Col(Ty::Num, i) => c.n = c.n.max(i + 1),
        X::Col(Ty::Bool, i) => c.b = c.b.max(i + 1),
        X::Un(_, e) | X::Abs(e) | X::Fn1(_, e) | X::In(e, ..) => count_cols(e, c),
        X::Bin(_, l, r) => {
            count_cols(l, c);
            count_cols(r, c)
        }
        X::Case(arms) => arms.iter().for_each(|(a, b)| {
            count_cols(a, c);
            count_cols(b, c)
        }),
        _ => {}
    }
}

// ------------------------------------------------------------------ generator

struct Gen<'a> {
    c: &'a mut Ctx,
    next_num: usize,
    next_bool: usize,
    /// how many leaves may still be a literal instead of a column
    lit_budget: usize,
    binary_only: bool,
    /// chain mode: below the root at most one operand per node is itself an operator
    chain: bool,
}

impl Gen<'_> {
    fn leaf(&mut self, ty: Ty) -> Option<X> {
        let k = if self.lit_budget > 0 { self.c.choose(match ty { Ty::Num => 6, Ty::Bool => 2 }, "leaf") } else { 0 };
        if k != 0 {
            self.lit_budget -= 1;
        }
        Some(match (ty, k) {
            (Ty::Num, 0) => {
                if self.next_num >= 4 {
                    return None;
                }
                self.next_num += 1;
                X::Col(Ty::Num, self.next_num - 1)
            }
            (Ty::Num, 1) => X::Lit(Ty::Num, "2"),
            (Ty::Num, 2) => X::Lit(Ty::Num, "-1"),
            (Ty::Num, 3) => X::Lit(Ty::Num, "0.5"),
            (Ty::Num, 4) => X::NamedNeg,
            // the same value as the integer literal 2, spelled as a float
            (Ty::Num, _) => X::Lit(Ty::Num, "2.0"),
            (Ty::Bool, 0) => {
                if self.next_bool >= 3 {
                    return None;
                }
                self.next_bool += 1;
                X::Col(Ty::Bool, self.next_bool - 1)
            }
            (Ty::Bool, _) => X::Lit(Ty::Bool, "true"),
        })
    }

    /// the two operands of a binary node: both of depth `sub`, or in chain mode one nested and one leaf
    fn two(&mut self, tl: Ty, tr: Ty, sub: usize) -> Option<(X, X)> {
        if self.chain && sub > 0 {
            if self.c.flag("nested-on-right") {
                let l = self.leaf(tl)?;
                let r = self.expr(tr, sub)?;
                Some((l, r))
            } else {
                let l = self.expr(tl, sub)?;
                let r = self.leaf(tr)?;
                Some((l, r))
            }
        } else {
            let l = self.expr(tl, sub)?;
            let r = self.expr(tr, sub)?;
            Some((l, r))
        }
    }

    fn expr(&mut self, ty: Ty, depth: usize) -> Option<X> {
        if depth == 0 {
            return self.leaf(ty);
        }
        // node kinds for this type
        let kinds: Vec<&'static str> = match (ty, self.binary_only) {
            (Ty::Num, true) => vec!["leaf", "arith", "coalesce"],
            (Ty::Bool, true) => vec!["leaf", "cmp", "logic", "coalesce", "eqbool"],
            (Ty::Num, false) => vec!["leaf", "arith", "coalesce", "neg", "pos", "case", "abs", "coalesce-null", "log2"],
            (Ty::Bool, false) => vec!["leaf", "cmp", "logic", "coalesce", "eqbool", "not", "isnull", "notnull", "nullis", "in", "case", "inlist"],
        };
        let k = *self.c.pick(&kinds, "kind");
        let sub = depth - 1;
        Some(match k {
            "leaf" => self.leaf(ty)?,
            "arith" => {
                let op = *self.c.pick(ARITH, "op");
                let (l, r) = self.two(Ty::Num, Ty::Num, sub)?;
                X::Bin(op, Box::new(l), Box::new(r))
            }
            "cmp" => {
                let op = *self.c.pick(CMP, "op");
                let (l, r) = self.two(Ty::Num, Ty::Num, sub)?;
                X::Bin(op, Box::new(l), Box::new(r))
            }
            "eqbool" => {
                let op = *self.c.pick(&["==", "!="], "op");
                let (l, r) = self.two(Ty::Bool, Ty::Bool, sub)?;
                X::Bin(op, Box::new(l), Box::new(r))
            }
            "logic" => {
                let op = *self.c.pick(LOGIC, "op");
                let (l, r) = self.two(Ty::Bool, Ty::Bool, sub)?;
                X::Bin(op, Box::new(l), Box::new(r))
            }
            "coalesce" => {
                let (l, r) = self.two(ty, ty, sub)?;
                X::Bin("??", Box::new(l), Box::new(r))
            }
            "coalesce-null" => X::Bin("??", Box::new(X::Null), Box::new(self.expr(ty, sub)?)),
            "neg" => X::Un("-", Box::new(self.expr(Ty::Num, sub)?)),
            "pos" => X::Un("+", Box::new(self.expr(Ty::Num, sub)?)),
            "not" => X::Un("!", Box::new(self.expr(Ty::Bool, sub)?)),
            "isnull" => X::Bin("==", Box::new(self.expr(Ty::Num, sub)?), Box::new(X::Null)),
            "notnull" => X::Bin("!=", Box::new(self.expr(Ty::Num, sub)?), Box::new(X::Null)),
            "nullis" => X::Bin("==", Box::new(X::Null), Box::new(self.expr(Ty::Num, sub)?)),
            "in" => X::In(Box::new(self.expr(Ty::Num, sub)?), 1, 2),
            "abs" => X::Abs(Box::new(self.expr(Ty::Num, sub)?)),
            "log2" => X::Fn1("log2", Box::new(self.expr(Ty::Num, sub)?)),
            "inlist" => X::Fn1("inlist", Box::new(self.expr(Ty::Num, sub)?)),
            "case" => {
                let two = self.c.flag("two-arms");
                let mut arms = vec![(self.expr(Ty::Bool, sub.min(1))?, self.expr(ty, sub)?)];
                if two {
                    arms.push((self.expr(Ty::Bool, 0)?, self.expr(ty, 0)?));
                }
                X::Case(arms)
            }
            _ => unreachable!(),
        })
    }
}

fn depth_of(x: &X) -> usize {
    match x {
        X::Col(..) | X::Lit(..) | X::Null | X::NamedNeg => 0,
        X::Un(_, e) | X::Abs(e) | X::Fn1(_, e) | X::In(e, ..) => 1 + depth_of(e),
        X::Bin(_, l, r) => 1 + depth_of(l).max(depth_of(r)),
        X::Case(a) => 1 + a.iter().map(|(c, v)| depth_of(c).max(depth_of(v))).max().unwrap_or(0),
    }
}

// ------------------------------------------------------------------ atomic SQL templates

pub struct Atoms {
    /// key -> SQL template with placeholders @0 @1 ...
    map: BTreeMap<String, String>,
}

fn table_name(n: usize, b: usize) -> String {
    format!("d_{n}_{b}")
}

/// compile `from <tbl> | select {id, r = <expr>}` and return the whole SQL
fn compile_select(tbl: &str, expr: &str, d: Dialect) -> Result<String, String> {
    // (word match: `kneg` is the column that carries the literal -1)
    let prelude = if replace_word(expr, "kneg", "") != expr { "derive {kneg = -1} | " } else { "" };
    let src = format!("from {tbl} | {prelude}select {{id, r = {expr}}}");
    match guard(|| prqlc::compile(&src, &opts(d))) {
        Ok(Ok(s)) => Ok(s),
        Ok(Err(e)) => Err(err_text(&e)),
        Err(p) => Err(format!("panic at {}: {}", p.site, p.msg)),
    }
}

/// the text of the `r` column in `SELECT id, <e> AS r FROM tbl`
fn extract_r(sql: &str, tbl: &str) -> Option<String> {
    let s = sql.strip_prefix("SELECT id, ")?;
    let s = s.strip_suffix(&format!(" AS r FROM {tbl}"))?;
    Some(s.to_string())
}

fn replace_word(s: &str, word: &str, with: &str) -> String {
    let mut out = String::new();
    let b = s.as_bytes();
    let mut i = 0;
    while i < s.len() {
        if s[i..].starts_with(word) {
            let before_ok = i == 0 || !(b[i - 1].is_ascii_alphanumeric() || b[i - 1] == b'_' || b[i - 1] == b'.');
            let j = i + word.len();
            let after_ok = j >= s.len() || !(b[j].is_ascii_alphanumeric() || b[j] == b'_' || b[j] == b'(');
            if before_ok && after_ok {
                out.push_str(with);
                i = j;
                continue;
            }
        }
        let ch = s[i..].chars().next().unwrap();
        out.push(ch);
        i += ch.len_utf8();
    }
    out
}

impl Atoms {
    pub fn build(d: Dialect) -> Result<Atoms, String> {
        let mut map = BTreeMap::new();
        let tbl = table_name(2, 2);
        let mut add = |key: &str, expr: &str, ph: &[(&str, &str)]| -> Result<(), String> {
            let sql = compile_select(&tbl, expr, d)?;
            let mut t = extract_r(&sql, &tbl).ok_or_else(|| format!("atomic {key}: unexpected SQL shape {sql}"))?;
            for (col, mark) in ph {
                t = replace_word(&t, col, mark);
            }
            map.insert(key.to_string(), t);
            Ok(())
        };
        for op in ARITH.iter().chain(CMP) {
            add(&format!("bin:{op}:n"), &format!("x {op} y"), &[("x", "@0"), ("y", "@1")])?;
        }
        for op in ["==", "!=", "&&", "||", "??"] {
            add(&format!("bin:{op}:b"), &format!("p {op} q"), &[("p", "@0"), ("q", "@1")])?;
        }
        add("bin:??:n", "x ?? y", &[("x", "@0"), ("y", "@1")])?;
        add("un:-", "-x", &[("x", "@0")])?;
        add("un:+", "+x", &[("x", "@0")])?;
        add("un:!", "!p", &[("p", "@0")])?;
        add("isnull", "x == null", &[("x", "@0")])?;
        add("notnull", "x != null", &[("x", "@0")])?;
        add("in", "(x | in 1..2)", &[("x", "@0")])?;
        add("abs", "(math.abs x)", &[("x", "@0")])?;
        for (k, t, _) in FN1 {
            add(k, &t.replace('§', "x"), &[("x", "@0")])?;
        }
        add("case1", "case [p => x]", &[("p", "@0"), ("x", "@1")])?;
        add("case2", "case [p => x, q => y]", &[("p", "@0"), ("x", "@1"), ("q", "@2"), ("y", "@3")])?;
        for lit in ["2", "-1", "0.5", "2.0", "true", "null"] {
            add(&format!("lit:{lit}"), lit, &[])?;
        }
        Ok(Atoms { map })
    }

    fn inst(&self, key: &str, args: &[String]) -> String {
        let mut t = self.map.get(key).unwrap_or_else(|| panic!("no atom {key}")).clone();
        // highest index first so that @1 does not eat @10
        for (i, a) in args.iter().enumerate().rev() {
            t = t.replace(&format!("@{i}"), &format!("({a})"));
        }
        t
    }

    /// expected SQL text of a tree: atomic templates, every operand parenthesised
    pub fn expected(&self, x: &X) -> String {
        fn ty_of(x: &X) -> Ty {
            match x {
                X::Col(t, _) | X::Lit(t, _) => *t,
                X::Null => Ty::Num,
                X::Un("!", _) => Ty::Bool,
                X::Un(..) | X::Abs(_) | X::NamedNeg => Ty::Num,
                X::Fn1(k, _) => fn1(k).2,
                X::In(..) => Ty::Bool,
                X::Bin(op, l, r) => {
                    if ARITH.contains(op) {
                        Ty::Num
                    } else if *op == "??" {
                        if matches!(**l, X::Null) {
                            ty_of(r)
                        } else {
                            ty_of(l)
                        }
                    } else {
                        Ty::Bool
                    }
                }
                X::Case(a) => ty_of(&a[0].1),
            }
        }
        match x {
            X::Col(Ty::Num, i) => NUM_COLS[*i].to_string(),
            X::Col(Ty::Bool, i) => BOOL_COLS[*i].to_string(),
            X::Lit(_, l) => self.inst(&format!("lit:{l}"), &[]),
            X::Null => self.inst("lit:null", &[]),
            X::Un(op, e) => self.inst(&format!("un:{op}"), &[self.expected(e)]),
            X::Abs(e) => self.inst("abs", &[self.expected(e)]),
            X::Fn1(k, e) => self.inst(k, &[self.expected(e)]),
            X::NamedNeg => self.inst("lit:-1", &[]),
            X::In(e, ..) => self.inst("in", &[self.expected(e)]),
            X::Bin(op, l, r) => {
                if matches!(**r, X::Null) && *op == "==" {
                    return self.inst("isnull", &[self.expected(l)]);
                }
                if matches!(**r, X::Null) && *op == "!=" {
                    return self.inst("notnull", &[self.expected(l)]);
                }
                if matches!(**l, X::Null) && *op == "==" {
                    return self.inst("isnull", &[self.expected(r)]);
                }
                let t = if ARITH.contains(op) || (CMP.contains(op) && ty_of(l) == Ty::Num && !matches!(**l, X::Null)) {
                    "n"
                } else if *op == "??" {
                    if ty_of(x) == Ty::Num {
                        "n"
                    } else {
                        "b"
                    }
                } else {
                    "b"
                };
                self.inst(&format!("bin:{op}:{t}"), &[self.expected(l), self.expected(r)])
            }
            X::Case(a) => {
                if a.len() == 1 {
                    self.inst("case1", &[self.expected(&a[0].0), self.expected(&a[0].1)])
                } else {
                    self.inst("case2", &[self.expected(&a[0].0), self.expected(&a[0].1), self.expected(&a[1].0), self.expected(&a[1].1)])
                }
            }
        }
    }
}

// ------------------------------------------------------------------ engine substrate

const NUM_DOMAIN: [&str; 8] = ["NULL", "-2", "-1", "0", "1", "2", "3", "0.5"];
const BOOL_DOMAIN: [&str; 3] = ["NULL", "0", "1"];

pub fn domain_db() -> Connection {
    let db = crate::sqlite::Db::new();
    let conn = db.conn;
    for n in 0..=4usize {
        for b in 0..=3usize {
            if n + b == 0 || 8usize.pow(n as u32) * 3usize.pow(b as u32) > 4700 {
                continue;
            }
            let mut cols: Vec<String> = vec![];
            let mut from: Vec<String> = vec![];
            for i in 0..n {
                cols.push(format!("n{i}.v AS {}", NUM_COLS[i]));
                from.push(format!("dn AS n{i}"));
            }
            for i in 0..b {
                cols.push(format!("b{i}.v AS {}", BOOL_COLS[i]));
                from.push(format!("db AS b{i}"));
            }
            let _ = conn.execute_batch("CREATE TABLE IF NOT EXISTS dn(v); CREATE TABLE IF NOT EXISTS db(v);");
            let have: i64 = conn.query_row("SELECT COUNT(*) FROM dn", [], |r| r.get(0)).unwrap_or(0);
            if have == 0 {
                for v in NUM_DOMAIN {
                    conn.execute_batch(&format!("INSERT INTO dn VALUES ({v});")).unwrap();
                }
                for v in BOOL_DOMAIN {
                    conn.execute_batch(&format!("INSERT INTO db VALUES ({v});")).unwrap();
                }
            }
            let t = table_name(n, b);
            conn.execute_batch(&format!("CREATE TABLE {t} AS SELECT {} FROM {}; ALTER TABLE {t} ADD COLUMN id; UPDATE {t} SET id = rowid;", cols.join(", "), from.join(", "))).unwrap();
        }
    }
    conn
}

#[derive(Debug)]
pub struct Bad {
    pub key: String,
    pub why: String,
}

/// Layer 1 on an executable dialect.
pub fn check_tree(conn: &Connection, atoms: &Atoms, x: &X, d: Dialect) -> Result<Option<Bad>, String> {
    let mut c = Cols { n: 0, b: 0 };
    count_cols(x, &mut c);
    // a table must exist for this column set
    let (n, b) = (c.n.max(if c.b == 0 { 1 } else { 0 }), c.b);
    let tbl = table_name(n, b);
    let src = pr_min(x);
    let sql = match compile_select(&tbl, &src, d) {
        Ok(s) => s,
        Err(e) => return Ok(Some(Bad { key: "well-typed-expression-rejected".into(), why: format!("{src}: {e}") })),
    };
    let expected = atoms.expected(x);
    let q = format!("SELECT c.id, c.r, e.e FROM ({sql}) AS c JOIN (SELECT id, ({expected}) AS e FROM {tbl}) AS e ON c.id = e.id WHERE NOT (c.r IS e.e OR COALESCE(ABS(c.r - e.e) <= 1e-9 * MAX(1.0, ABS(e.e)), 0)) LIMIT 1");
    let mut st = match conn.prepare(&q) {
        Ok(s) => s,
        Err(e) => return Ok(Some(Bad { key: "engine-rejects".into(), why: format!("{src} → {sql}: {e}") })),
    };
    let mut rows = st.query([]).map_err(|e| e.to_string())?;
    match rows.next() {
        Ok(Some(r)) => {
            let id: i64 = r.get(0).unwrap_or(-1);
            let got: rusqlite::types::Value = r.get(1).unwrap_or(rusqlite::types::Value::Null);
            let exp: rusqlite::types::Value = r.get(2).unwrap_or(rusqlite::types::Value::Null);
            drop(rows);
            let vals: String = conn
                .query_row(&format!("SELECT * FROM {tbl} WHERE id = {id}"), [], |r| {
                    let mut s = vec![];
                    for i in 0..(n + b) {
                        let v: rusqlite::types::Value = r.get(i)?;
                        s.push(format!("{v:?}"));
                    }
                    Ok(s.join(","))
                })
                .unwrap_or_default();
            Ok(Some(Bad {
                key: "compiled-differs-from-documented-tree".into(),
                why: format!("`{src}` compiles to `{}` which evaluates to {got:?}; the documented tree `{expected}` gives {exp:?} at ({vals})", extract_r(&sql, &tbl).unwrap_or(sql.clone())),
            }))
        }
        Ok(None) => Ok(None),
        // evaluation errors (e.g. integer overflow inside POW) say nothing about structure
        Err(_) => Ok(None),
    }
}

/// (parent op, child op, side) of the first place where a child binary needs … used as cause key
fn pairs(x: &X, out: &mut Vec<(String, String, &'static str)>) {
    fn name(x: &X) -> Option<String> {
        match x {
            X::Bin(op, _, r) if matches!(**r, X::Null) => Some(format!("{op}null")),
            X::Bin(op, ..) => Some(op.to_string()),
            X::Un(op, _) => Some(format!("unary{op}")),
            X::In(..) => Some("in".into()),
            X::Case(_) => Some("case".into()),
            X::Abs(_) => Some("abs".into()),
            X::Fn1(k, _) => Some(k.to_string()),
            X::NamedNeg => Some("named-neglit".into()),
            X::Lit(_, l) if l.starts_with('-') => Some("neglit".into()),
            _ => None,
        }
    }
    let me = name(x);
    let mut kid = |k: &X, side: &'static str, out: &mut Vec<(String, String, &'static str)>| {
        if let (Some(p), Some(c)) = (&me, name(k)) {
            out.push((p.clone(), c, side));
        }
        pairs(k, out);
    };
    match x {
        X::Bin(_, l, r) => {
            kid(l, "L", out);
            kid(r, "R", out);
        }
        X::Un(_, e) | X::Abs(e) | X::Fn1(_, e) | X::In(e, ..) => kid(e, "L", out),
        X::Case(a) => a.iter().for_each(|(c, v)| {
            kid(c, "L", out);
            kid(v, "R", out)
        }),
        _ => {}
    }
}

// ------------------------------------------------------------------ layer 2: meaning of each operator

fn layer2(conn: &Connection, run: &mut Run, d: Dialect) {
    let tbl = table_name(2, 0);
    // documented semantics on (x, y) ∈ D²; None = NULL; Err = undecided
    let dom: [Option<f64>; 8] = [None, Some(-2.0), Some(-1.0), Some(0.0), Some(1.0), Some(2.0), Some(3.0), Some(0.5)];
    let spec = |op: &str, a: Option<f64>, b: Option<f64>| -> Result<Option<f64>, ()> {
        let (Some(a), Some(b)) = (a, b) else {
            return match op {
                "??" => Ok(a.or(b)),
                _ => Ok(None),
            };
        };
        Ok(Some(match op {
            "+" => a + b,
            "-" => a - b,
            "*" => a * b,
            "/" => {
                if b == 0.0 {
                    return Err(());
                }
                a / b
            }
            "//" => {
                if b == 0.0 || a.fract() != 0.0 || b.fract() != 0.0 {
                    return Err(());
                }
                (a / b).trunc()
            }
            "%" => {
                if b == 0.0 || a < 0.0 || b < 0.0 || a.fract() != 0.0 || b.fract() != 0.0 {
                    return Err(());
                }
                a % b
            }
            "**" => {
                if (a == 0.0 && b < 0.0) || (a < 0.0 && b.fract() != 0.0) {
                    return Err(());
                }
                a.powf(b)
            }
            "==" => (a == b) as i64 as f64,
            "!=" => (a != b) as i64 as f64,
            "<" => (a < b) as i64 as f64,
            "<=" => (a <= b) as i64 as f64,
            ">" => (a > b) as i64 as f64,
            ">=" => (a >= b) as i64 as f64,
            "??" => a,
            _ => return Err(()),
        }))
    };
    let mut ops: Vec<&str> = ARITH.to_vec();
    ops.extend(CMP);
    ops.push("??");
    for op in ops {
        // the generic templates of `/`, `//`, `%` and `**` leave the result type to the engine
        if d == Dialect::Generic && matches!(op, "/" | "//" | "%" | "**") {
            run.count("layer2_operators_left_to_the_engine_(generic)", 1);
            continue;
        }
        let Ok(sql) = compile_select(&tbl, &format!("x {op} y"), d) else { continue };
        let q = format!("SELECT t.x, t.y, c.r FROM ({sql}) AS c JOIN {tbl} AS t ON t.id = c.id");
        let Ok(mut st) = conn.prepare(&q) else {
            run.violate(Some("engine-rejects".into()), format!("[{}] atomic `x {op} y` → {sql} is rejected", dname(d)), json!({"driver":"EX-atomic","dialect": dname(d),"prql": format!("x {op} y"), "sql": sql}));
            continue;
        };
        let rows: Vec<(Option<f64>, Option<f64>, Option<f64>)> = st.query_map([], |r| Ok((r.get(0)?, r.get(1)?, r.get(2)?))).map(|it| it.filter_map(|x| x.ok()).collect()).unwrap_or_default();
        let mut decided = 0;
        let mut wrong: Vec<String> = vec![];
        for (a, b, got) in rows {
            let _ = dom;
            match spec(op, a, b) {
                Err(()) => run.count("layer2_undecided_operand_pairs", 1),
                Ok(want) => {
                    decided += 1;
                    let same = match (want, got) {
                        (None, None) => true,
                        (Some(w), Some(g)) => (w - g).abs() <= 1e-9 * w.abs().max(1.0),
                        _ => false,
                    };
                    if !same {
                        wrong.push(format!("{a:?} {op} {b:?} = {got:?}, documented {want:?}"));
                    }
                }
            }
        }
        run.validated += decided;
        if !wrong.is_empty() {
            run.violate(
                Some(format!("operator-meaning:{op}:{}", dname(d))),
                format!("[{}] `x {op} y` → `{}`: {} of the decided operand pairs are wrong, e.g. {}", dname(d), extract_r(&sql, &tbl).unwrap_or_default(), wrong.len(), wrong.iter().take(4).cloned().collect::<Vec<_>>().join("; ")),
                json!({"driver":"EX-atomic","dialect": dname(d), "prql": format!("x {op} y"), "sql": sql, "wrong": wrong}),
            );
        }
    }
    // null tests, case, in: against their definition
    let checks: Vec<(&str, &str, Box<dyn Fn(Option<f64>, Option<f64>) -> Option<f64>>)> = vec![
        ("x == null", "isnull", Box::new(|a, _| Some(a.is_none() as i64 as f64))),
        ("x != null", "notnull", Box::new(|a, _| Some(a.is_some() as i64 as f64))),
        ("null == x", "nullis", Box::new(|a, _| Some(a.is_none() as i64 as f64))),
        ("(x | in 1..2)", "in", Box::new(|a, _| a.map(|a| (a >= 1.0 && a <= 2.0) as i64 as f64))),
        // the other shapes of a literal range: the documented meaning is `x >= lo && x <= hi`, whatever the bounds —
        // descending (always false for a number, *null for null*), single-point, half-open, negative, and its
        // negation / coalescing, where a wrongly folded constant would surface
        ("(x | in 2..1)", "in-descending", Box::new(|a, _| a.map(|_| 0.0))),
        ("!(x | in 2..1)", "not-in-descending", Box::new(|a, _| a.map(|_| 1.0))),
        ("(x | in 2..1) ?? true", "in-descending-coalesce", Box::new(|a, _| Some(if a.is_some() { 0.0 } else { 1.0 }))),
        ("(x | in (-1)..(-2))", "in-descending-negative", Box::new(|a, _| a.map(|_| 0.0))),
        ("(x | in 1..1)", "in-single-point", Box::new(|a, _| a.map(|a| (a == 1.0) as i64 as f64))),
        ("(x | in 1..)", "in-open-end", Box::new(|a, _| a.map(|a| (a >= 1.0) as i64 as f64))),
        ("(x | in ..1)", "in-open-start", Box::new(|a, _| a.map(|a| (a <= 1.0) as i64 as f64))),
        ("(x | in (-2)..0.5)", "in-mixed-bounds", Box::new(|a, _| a.map(|a| (a >= -2.0 && a <= 0.5) as i64 as f64))),
        ("(x | in y..2)", "in-column-bound", Box::new(|a, b| match (a, b) { (Some(a), Some(b)) => Some((a >= b && a <= 2.0) as i64 as f64), (Some(a), None) if a > 2.0 => Some(0.0), _ => None })),
        ("case [x > 0 => x, y > 0 => y]", "case", Box::new(|a, b| if a.map(|a| a > 0.0).unwrap_or(false) { a } else if b.map(|b| b > 0.0).unwrap_or(false) { b } else { None })),
        ("case [x > 0 => 1, true => 2]", "case-default", Box::new(|a, _| if a.map(|a| a > 0.0).unwrap_or(false) { Some(1.0) } else { Some(2.0) })),
        ("x ?? y ?? 7", "coalesce-chain", Box::new(|a, b| a.or(b).or(Some(7.0)))),
        ("(null ?? x) == null", "fold-null-coalesce", Box::new(|a, _| Some(a.is_none() as i64 as f64))),
        ("2 + 3 * 2 == 8", "fold-constants", Box::new(|_, _| Some(1.0))),
        ("-(-1) + x", "fold-neg", Box::new(|a, _| a.map(|a| a + 1.0))),
    ];
    for (src, name, f) in checks {
        let Ok(sql) = compile_select(&tbl, src, d) else {
            run.violate(Some(format!("rejected:{name}")), format!("`{src}` does not compile"), json!({"driver":"EX-atomic","prql": src}));
            continue;
        };
        let q = format!("SELECT t.x, t.y, c.r FROM ({sql}) AS c JOIN {tbl} AS t ON t.id = c.id");
        let Ok(mut st) = conn.prepare(&q) else { continue };
        let rows: Vec<(Option<f64>, Option<f64>, Option<f64>)> = st.query_map([], |r| Ok((r.get(0)?, r.get(1)?, r.get(2)?))).map(|it| it.filter_map(|x| x.ok()).collect()).unwrap_or_default();
        let wrong: Vec<String> = rows.iter().filter(|(a, b, got)| f(*a, *b) != *got).map(|(a, b, got)| format!("x={a:?} y={b:?}: {got:?}, documented {:?}", f(*a, *b))).collect();
        run.validated += rows.len() as u64;
        if !wrong.is_empty() {
            run.violate(Some(format!("construct-meaning:{name}:{}", dname(d))), format!("[{}] `{src}` → {sql}: {}", dname(d), wrong.iter().take(3).cloned().collect::<Vec<_>>().join("; ")), json!({"driver":"EX-atomic","dialect": dname(d),"prql": src, "sql": sql, "wrong": wrong}));
        }
    }
}

// ------------------------------------------------------------------ layer 3: sqlparser per dialect

fn sqlparser_dialect(d: Dialect) -> Box<dyn sqlparser::dialect::Dialect> {
    use sqlparser::dialect as sd;
    match d {
        Dialect::Ansi => Box::new(sd::AnsiDialect {}),
        Dialect::BigQuery => Box::new(sd::BigQueryDialect {}),
        Dialect::ClickHouse => Box::new(sd::ClickHouseDialect {}),
        // sqlparser's DuckDB grammar reads `f(a = b)` as a named argument; DuckDB proper is Postgres-derived here
        Dialect::DuckDb => Box::new(sd::PostgreSqlDialect {}),
        Dialect::Generic => Box::new(sd::GenericDialect {}),
        Dialect::GlareDb | Dialect::Postgres => Box::new(sd::PostgreSqlDialect {}),
        Dialect::MsSql => Box::new(sd::MsSqlDialect {}),
        Dialect::MySql => Box::new(sd::MySqlDialect {}),
        Dialect::Redshift => Box::new(sd::RedshiftSqlDialect {}),
        Dialect::SQLite => Box::new(sd::SQLiteDialect {}),
        Dialect::Snowflake => Box::new(sd::SnowflakeDialect {}),
    }
}

fn strip_nested(v: &mut J) {
    loop {
        let inner = match v {
            J::Object(m) if m.len() == 1 && m.contains_key("Nested") => m.remove("Nested"),
            _ => None,
        };
        match inner {
            Some(i) => *v = i,
            None => break,
        }
    }
    match v {
        J::Object(m) => {
            m.remove("span");
            m.values_mut().for_each(strip_nested);
        }
        J::Array(a) => a.iter_mut().for_each(strip_nested),
        _ => {}
    }
}

/// `a + (b + c)` / `a + (b - c)` / `a AND (b AND c)` / `a OR (b OR c)` denote the same value as their
/// left-nested forms: rotate them to the left so that a dropped pair of parentheses is not reported
fn rotate_left(v: &mut J) {
    match v {
        J::Object(m) => {
            m.values_mut().for_each(rotate_left);
            loop {
                let Some(b) = m.get("BinaryOp") else { break };
                let op = b["op"].as_str().unwrap_or("").to_string();
                let rop = b["right"]["BinaryOp"]["op"].as_str().unwrap_or("").to_string();
                let ok = match op.as_str() {
                    "Plus" => rop == "Plus" || rop == "Minus",
                    "And" => rop == "And",
                    "Or" => rop == "Or",
                    _ => false,
                };
                if !ok {
                    break;
                }
                let b = m.get("BinaryOp").unwrap().clone();
                let (a, r) = (b["left"].clone(), b["right"]["BinaryOp"].clone());
                let new_left = serde_json::json!({"BinaryOp": {"left": a, "op": op, "right": r["left"].clone()}});
                let mut nl = new_left;
                rotate_left(&mut nl);
                *m.get_mut("BinaryOp").unwrap() = serde_json::json!({"left": nl, "op": rop, "right": r["right"].clone()});
            }
        }
        J::Array(a) => a.iter_mut().for_each(rotate_left),
        _ => {}
    }
}

fn parse_expr_json(sql_expr: &str, d: Dialect) -> Result<J, String> {
    let dial = sqlparser_dialect(d);
    let stmts = sqlparser::parser::Parser::parse_sql(&*dial, &format!("SELECT 1 FROM t WHERE ({sql_expr}) IS NOT NULL")).map_err(|e| e.to_string())?;
    let mut v = serde_json::to_value(&stmts).map_err(|e| e.to_string())?;
    strip_nested(&mut v);
    rotate_left(&mut v);
    Ok(v)
}

fn foldable(x: &X) -> bool {
    match x {
        X::Lit(..) => true,
        X::Null => false,
        X::Col(..) => false,
        X::Un(_, e) | X::Abs(e) | X::Fn1(_, e) | X::In(e, ..) => foldable(e),
        X::NamedNeg => true,
        X::Bin(op, l, r) => (*op == "??" && (matches!(**l, X::Null) || matches!(**r, X::Null))) || foldable(l) || foldable(r),
        X::Case(a) => a.iter().any(|(c, v)| foldable(c) || foldable(v)),
    }
}

pub fn check_tree_parsed(atoms: &Atoms, x: &X, d: Dialect) -> Option<Bad> {
    // constant folding legitimately changes the structure (its value is checked by layer 1)
    if foldable(x) {
        return None;
    }
    let mut c = Cols { n: 0, b: 0 };
    count_cols(x, &mut c);
    let tbl = table_name(c.n.max(if c.b == 0 { 1 } else { 0 }), c.b);
    let src = pr_min(x);
    let sql = compile_select(&tbl, &src, d).ok()?;
    let got = extract_r(&sql, &tbl)?;
    let expected = atoms.expected(x);
    let (a, b) = (parse_expr_json(&got, d), parse_expr_json(&expected, d));
    // an operator template that sqlparser's grammar for this dialect does not know at all (e.g. DIV
    // for ClickHouse) makes both texts unparseable: outside this layer's model
    if a.is_err() && b.is_err() {
        return None;
    }
    match (a, b) {
        (Ok(a), Ok(b)) => {
            if a != b {
                Some(Bad { key: "parsed-structure-differs".into(), why: format!("`{src}` → `{got}`; documented tree `{expected}` parses differently under the {} grammar", dname(d)) })
            } else {
                None
            }
        }
        (Err(e), _) => Some(Bad { key: "compiled-expression-does-not-parse".into(), why: format!("`{src}` → `{got}`: {e}") }),
        // our own fully parenthesised text not parsing is a harness matter: skip
        (_, Err(_)) => None,
    }
}

// ------------------------------------------------------------------ run

pub fn trees(tier: Tier) -> (Vec<(X, Vec<usize>)>, engine::Stats) {
    let (mut all, st) = engine::collect(0, |c| {
        let mode = c.choose(5, "space");
        if mode == 4 {
            // S5: balanced depth-3 trees — the middle operator has an operator on *both* sides (or a call on
            // the right), under every parent operator on either side, or under unary minus:
            //     x P ((y Q 2) R (z S -1))      ((y Q 2) R (z S -1)) P x      -((y Q 2) R abs z)
            let r = *c.pick(ARITH, "middle");
            let q = *c.pick(&["+", "-", "*"], "left-inner");
            let left = X::Bin(q, Box::new(X::Col(Ty::Num, 1)), Box::new(X::Lit(Ty::Num, "2")));
            let right = match c.choose(3, "right-inner") {
                0 => X::Bin("+", Box::new(X::Col(Ty::Num, 2)), Box::new(X::Lit(Ty::Num, "-1"))),
                1 => X::Bin("*", Box::new(X::Col(Ty::Num, 2)), Box::new(X::Lit(Ty::Num, "2"))),
                _ => X::Abs(Box::new(X::Col(Ty::Num, 2))),
            };
            let mid = X::Bin(r, Box::new(left), Box::new(right));
            return Some(match c.choose(3, "parent-shape") {
                0 => X::Bin(*c.pick(ARITH, "parent"), Box::new(X::Col(Ty::Num, 0)), Box::new(mid)),
                1 => X::Bin(*c.pick(ARITH, "parent"), Box::new(mid), Box::new(X::Col(Ty::Num, 0))),
                _ => X::Bin("+", Box::new(X::Col(Ty::Num, 0)), Box::new(X::Un("-", Box::new(mid)))),
            });
        }
        let ty = *c.pick(&[Ty::Num, Ty::Bool], "type");
        // (depth, literal leaves allowed, binary only, chain)
        let (depth, lit_budget, binary_only, chain) = match (mode, tier) {
            // S1: every depth-2 tree over the full node alphabet, column leaves:
            //     contains every (parent, child, side) pair
            (0, _) => (2, 0, false, false),
            // S2: single applications with every literal / null leaf combination (constant folding)
            (1, _) => (1, 2, false, false),
            // S3: depth-2 trees with one literal leaf
            (2, Tier::Quick) => (2, 1, true, false),
            (2, Tier::Thorough) => (2, 1, false, false),
            // S4: depth-3 chains (every triple of nested operators, each side)
            (_, Tier::Quick) => (3, 0, true, true),
            (_, Tier::Thorough) => (3, 0, false, true),
        };
        let mut g = Gen { c, next_num: 0, next_bool: 0, lit_budget, binary_only, chain };
        let x = g.expr(ty, depth)?;
        let mut cols = Cols { n: 0, b: 0 };
        count_cols(&x, &mut cols);
        if 8usize.pow(cols.n as u32) * 3usize.pow(cols.b as u32) > 4700 {
            return None;
        }
        if mode == 3 && depth_of(&x) < 3 {
            return None;
        }
        Some(x)
    });
    let mut seen = std::collections::HashSet::new();
    all.retain(|(x, _)| seen.insert(pr_min(x)));
    (all, st)
}

pub fn run(tier: Tier) -> i32 {
    let mut run = Run::new("C02", tier);
    let (all, st) = trees(tier);
    let exec: Vec<Dialect> = vec![Dialect::SQLite, Dialect::Generic];
    for d in &exec {
        let atoms = match Atoms::build(*d) {
            Ok(a) => a,
            Err(e) => {
                eprintln!("MACHINERY ERROR: cannot build atomic templates for {d}: {e}");
                return 2;
            }
        };
        let outs = par_map(&all, domain_db, |conn, (x, _)| check_tree(conn, &atoms, x, *d));
        let mut failing: Vec<(usize, Bad)> = vec![];
        for (i, ((x, _), o)) in all.iter().zip(outs).enumerate() {
            run.validated += 1;
            match o {
                Err(e) => {
                    eprintln!("MACHINERY ERROR: {e}");
                    return 2;
                }
                Ok(None) => run.observe(fnv(&format!("{}{}", dname(*d), atoms.expected(x)))),
                Ok(Some(b)) => failing.push((i, b)),
            }
        }
        report(&mut run, &all, failing, *d, "EX");
        let conn = domain_db();
        layer2(&conn, &mut run, *d);
    }
    // layer 3: the dialects without an engine, on the depth-2 binary pairs and (thorough) everything
    let others: Vec<Dialect> = all_dialects().into_iter().filter(|d| !exec.contains(d)).collect();
    let subset: Vec<&(X, Vec<usize>)> = all.iter().filter(|(x, _)| tier == Tier::Thorough || depth_of(x) <= 2).collect();
    for d in others {
        let atoms = match Atoms::build(d) {
            Ok(a) => a,
            Err(e) => {
                run.count(&format!("layer3_skipped_dialect_{}: {}", dname(d), e.chars().take(80).collect::<String>()), 1);
                continue;
            }
        };
        let outs = par_map(&subset, || (), |_, (x, _)| check_tree_parsed(&atoms, x, d));
        let mut failing: Vec<(usize, Bad)> = vec![];
        let owned: Vec<(X, Vec<usize>)> = subset.iter().map(|t| (*t).clone()).collect();
        for (i, o) in outs.into_iter().enumerate() {
            run.count("layer3_trees_parsed", 1);
            if let Some(b) = o {
                failing.push((i, b));
            }
        }
        report(&mut run, &owned, failing, d, "EX-parse");
    }
    run.states = all.len() as u64;
    run.transitions = st.points;
    run.set("bounds", json!({"depth2": "every well-typed tree over 17 binary (7 arithmetic, 6 comparison, ??, &&, ||, == / != on booleans), 3 unary, null tests, case (1-2 arms), in-range, math.abs; leaves: columns, 2, -1, 0.5, 2.0, true, null",
        "depth3": tier.pick("chains of binary operators (every nested triple, each side), column leaves", "chains over the full node alphabet, column leaves"), "literal_leaves": "all combinations at depth 1; one literal leaf at depth 2", "operand_domain_numeric": NUM_DOMAIN, "operand_domain_boolean": BOOL_DOMAIN, "executed_dialects": ["sqlite","generic"], "parsed_dialects": 10}));
    run.set("rule", json!("state = one expression tree printed with minimal parentheses; validated = trees whose compiled SQL was evaluated against the assembled fully parenthesised SQL on the whole operand cross product (layer 1) + operand pairs of atomic applications compared with the documented meaning (layer 2); layer 3 compares sqlparser ASTs for the 10 other dialects"));
    run.assume("SQLite evaluates both texts; operator meaning cancels in layer 1. Layer 3 is as good as sqlparser's per-dialect precedence tables.");
    run.assume("operand pairs without documented meaning (division by zero, % or // on negatives/fractions, 0 ** negative) are undecided in layer 2");
    run.finish()
}

/// Attribute failing trees to their smallest cause. A tree with exactly one (parent, child, side)
/// operator pair that fails *is* a minimal counterexample for that pair; larger failing trees are
/// attributed to the first such pair they contain, and stay unattributed if they contain none.
fn report(run: &mut Run, all: &[(X, Vec<usize>)], failing: Vec<(usize, Bad)>, d: Dialect, driver: &str) {
    let mut bad_pairs: std::collections::BTreeSet<String> = Default::default();
    let pairs_of = |x: &X| {
        let mut ps = vec![];
        pairs(x, &mut ps);
        ps.into_iter().map(|(p, c, s)| format!("{p}>{c}@{s}")).collect::<Vec<_>>()
    };
    for (i, _) in &failing {
        let ps = pairs_of(&all[*i].0);
        if ps.len() == 1 {
            bad_pairs.insert(ps[0].clone());
        }
    }
    for (i, b) in failing {
        let (x, ch) = &all[i];
        let ps = pairs_of(x);
        let key = match ps.iter().find(|p| bad_pairs.contains(*p)) {
            Some(p) => format!("{}:{}:{p}", b.key, dname(d)),
            None if ps.is_empty() => format!("{}:{}:single-application", b.key, dname(d)),
            None => format!("{}:{}", b.key, dname(d)),
        };
        run.violate(
            Some(key),
            format!("[{}] {}", dname(d), b.why),
            json!({"driver": driver, "choices": ch, "dialect": dname(d), "prql": pr_min(x), "detail": b.why, "operator_pairs": ps}),
        );
    }
}

pub fn debug_parse(a: &str, b: &str) {
    let d = Dialect::DuckDb;
    println!("{}", parse_expr_json(a, d).map(|v| v.to_string()).unwrap_or_else(|e| e));
    println!("{}", parse_expr_json(b, d).map(|v| v.to_string()).unwrap_or_else(|e| e));
}

pub fn replay(v: &J) -> i32 {
    println!("re-run `./check C02 quick`; expression: {}", v["prql"]);
    1
}

pub fn debug_stmt(sql: &str) {
    let dial = sqlparser::dialect::GenericDialect {};
    match sqlparser::parser::Parser::parse_sql(&dial, sql) {
        Ok(s) => println!("{}", serde_json::to_string(&s).unwrap()),
        Err(e) => println!("ERR {e}"),
    }
}
